//go:build verif

// C15: float and mixed-type arithmetic follow IEEE-754 with Python's rules.
//
// Binding by trace validation: this program performs float / mixed int-float / complex operators,
// conversions and the folding builtins of the real gpython code on pairs from a lattice of special
// doubles and boundary ints and on seeded random bit patterns, through the Go API and through compiled
// expressions.  Every operation becomes one line (op, operands as exact bit patterns / ints,
// observation) that TLC validates against spec/C15/PyFloatOps.tla (exact dyadic arithmetic with one
// rounding, CPython 3.4's float_divmod/float_pow/float_richcompare transcribed, two-sided repr
// postcondition).  Rejected lines come back with the finding key computed by the specification.
//
// No expected value lives here: this file renders cases, runs the real code, transports doubles as
// their 8 bytes and ints as base-2^15 digit sequences (TLC integers are 32-bit), and relays verdicts.
package main

import (
	"bytes"
	"encoding/binary"
	"encoding/json"
	"fmt"
	"math"
	"math/big"
	"math/rand"
	"os"
	"sort"
	"strconv"
	"strings"
	"sync"
	"time"

	"gpverif/common"
	"gpverif/pyrun"

	"github.com/go-python/gpython/py"
)

// ---------------------------------------------------------------------------------------
// transport

type Z struct {
	S int   `json:"s"`
	M []int `json:"m"`
}

var big15 = big.NewInt(32768)

func encZ(v *big.Int) *Z {
	z := &Z{S: 1, M: []int{}}
	if v.Sign() < 0 {
		z.S = -1
	}
	m := new(big.Int).Abs(v)
	r := new(big.Int)
	for m.Sign() != 0 {
		m.QuoRem(m, big15, r)
		z.M = append(z.M, int(r.Int64()))
	}
	return z
}

func decZ(z *Z) *big.Int {
	v := new(big.Int)
	if z == nil {
		return v
	}
	for i := len(z.M) - 1; i >= 0; i-- {
		v.Mul(v, big15)
		v.Add(v, big.NewInt(int64(z.M[i])))
	}
	if z.S < 0 {
		v.Neg(v)
	}
	return v
}

func fbytes(x float64) []int {
	var b [8]byte
	binary.BigEndian.PutUint64(b[:], math.Float64bits(x))
	out := make([]int, 8)
	for i := range b {
		out[i] = int(b[i])
	}
	return out
}

func codes(s string) *[]int {
	c := make([]int, 0, len(s))
	for _, r := range s {
		c = append(c, int(r))
	}
	return &c
}

// Val is an operand: a double, an int or a complex number.
type Val struct {
	T  string `json:"t"` // f | i | c
	B  []int  `json:"b,omitempty"`
	Z  *Z     `json:"z,omitempty"`
	Re []int  `json:"re,omitempty"`
	Im []int  `json:"im,omitempty"`
	f  float64
	i  *big.Int
	c  complex128
}

func VF(x float64) *Val    { return &Val{T: "f", B: fbytes(x), f: x} }
func VI(i *big.Int) *Val   { return &Val{T: "i", Z: encZ(i), i: i} }
func VC(c complex128) *Val { return &Val{T: "c", Re: fbytes(real(c)), Im: fbytes(imag(c)), c: c} }

func (v *Val) String() string {
	switch v.T {
	case "f":
		return fmt.Sprintf("float(bits=%016x %s)", math.Float64bits(v.f), strconv.FormatFloat(v.f, 'g', -1, 64))
	case "i":
		return v.i.String()
	}
	return fmt.Sprintf("complex(%s, %s)", strconv.FormatFloat(real(v.c), 'g', -1, 64), strconv.FormatFloat(imag(v.c), 'g', -1, 64))
}

// raw is the exact, machine-readable form of the operand (used by replay files).
func (v *Val) raw() string {
	switch v.T {
	case "f":
		return fmt.Sprintf("f:%016x", math.Float64bits(v.f))
	case "i":
		return "i:" + v.i.String()
	}
	return fmt.Sprintf("c:%016x,%016x", math.Float64bits(real(v.c)), math.Float64bits(imag(v.c)))
}

func valOfRaw(s string) *Val {
	if len(s) < 3 {
		return nil
	}
	switch s[0] {
	case 'f':
		b, err := strconv.ParseUint(s[2:], 16, 64)
		if err != nil {
			return nil
		}
		return VF(math.Float64frombits(b))
	case 'i':
		v, ok := new(big.Int).SetString(s[2:], 10)
		if !ok {
			return nil
		}
		return VI(v)
	case 'c':
		p := strings.Split(s[2:], ",")
		if len(p) != 2 {
			return nil
		}
		re, err1 := strconv.ParseUint(p[0], 16, 64)
		im, err2 := strconv.ParseUint(p[1], 16, 64)
		if err1 != nil || err2 != nil {
			return nil
		}
		return VC(complex(math.Float64frombits(re), math.Float64frombits(im)))
	}
	return nil
}

func (v *Val) obj() py.Object {
	switch v.T {
	case "f":
		return py.Float(v.f)
	case "i":
		if v.i.IsInt64() {
			return py.Int(v.i.Int64())
		}
		return (*py.BigInt)(new(big.Int).Set(v.i))
	}
	return py.Complex(v.c)
}

func flit(x float64) string {
	switch {
	case math.IsNaN(x):
		return "float('nan')"
	case math.IsInf(x, 1):
		return "float('inf')"
	case math.IsInf(x, -1):
		return "(-float('inf'))"
	}
	s := strconv.FormatFloat(math.Abs(x), 'g', -1, 64)
	if !strings.ContainsAny(s, ".e") {
		s += ".0"
	}
	if math.Signbit(x) {
		return "(-" + s + ")"
	}
	return s
}

// lit renders the operand as Python source.
func (v *Val) lit() string {
	switch v.T {
	case "f":
		return flit(v.f)
	case "i":
		if v.i.Sign() < 0 {
			return "(" + v.i.String() + ")"
		}
		return v.i.String()
	}
	return "complex(" + flit(real(v.c)) + ", " + flit(imag(v.c)) + ")"
}

type Obs struct {
	K     string   `json:"k"` // float | pairf | complex | int | bool | text | exc | panic | timeout | other-*
	B     []int    `json:"b,omitempty"`
	B2    []int    `json:"b2,omitempty"`
	V     *Z       `json:"v,omitempty"`
	T     *int     `json:"t,omitempty"`
	Txt   *[]int   `json:"txt,omitempty"`
	Bases []string `json:"bases,omitempty"`
	note  string
	show  string
	after [2]*Val // operand objects re-read after the operation (Go API route)
}

// valOfObject reads an operand object back (nil if it is no longer a number object).
func valOfObject(o py.Object) (v *Val) {
	defer func() {
		if recover() != nil {
			v = nil
		}
	}()
	switch t := o.(type) {
	case py.Float:
		return VF(float64(t))
	case py.Complex:
		return VC(complex128(t))
	}
	if i, ok := intOf(o); ok {
		return VI(i)
	}
	return nil
}

type Line struct {
	Op  string `json:"op"`
	X   *Val   `json:"x,omitempty"`
	Y   *Val   `json:"y,omitempty"`
	Txt *[]int `json:"txt,omitempty"`
	O   Obs    `json:"o"`
	O2  *Obs   `json:"o2,omitempty"`
	XA  *Val   `json:"xa,omitempty"` // the operands re-read after the operation (numbers are immutable)
	YA  *Val   `json:"ya,omitempty"`
}

type Case struct {
	Op  string
	Via string // api | eval
	X   *Val
	Y   *Val
	Txt string
}

func (c *Case) sig() string {
	s := c.Op + "|" + c.Via + "|" + c.Txt
	for _, v := range []*Val{c.X, c.Y} {
		if v == nil {
			continue
		}
		switch v.T {
		case "f":
			s += fmt.Sprintf("|f%016x", math.Float64bits(v.f))
		case "i":
			s += "|i" + v.i.String()
		default:
			s += fmt.Sprintf("|c%016x,%016x", math.Float64bits(real(v.c)), math.Float64bits(imag(v.c)))
		}
	}
	return s
}

var unaryOps = map[string]bool{"neg": true, "pos": true, "abs": true, "truth": true, "int": true, "round": true, "repr": true, "str": true, "float": true}

// ---------------------------------------------------------------------------------------
// observing

func one(t bool) *int {
	x := 0
	if t {
		x = 1
	}
	return &x
}

func intOf(o py.Object) (*big.Int, bool) {
	switch t := o.(type) {
	case py.Int:
		return big.NewInt(int64(t)), true
	case *py.BigInt:
		if t != nil {
			return new(big.Int).Set((*big.Int)(t)), true
		}
	}
	return nil, false
}

func observe(o py.Object) Obs {
	if o == nil {
		return Obs{K: "panic", note: "nil result without error"}
	}
	if b, ok := o.(py.Bool); ok {
		return Obs{K: "bool", T: one(bool(b)), show: fmt.Sprint(bool(b))}
	}
	if v, ok := intOf(o); ok {
		return Obs{K: "int", V: encZ(v), show: v.String()}
	}
	switch t := o.(type) {
	case py.Float:
		return Obs{K: "float", B: fbytes(float64(t)), show: strconv.FormatFloat(float64(t), 'g', -1, 64)}
	case py.Complex:
		return Obs{K: "complex", B: fbytes(real(complex128(t))), B2: fbytes(imag(complex128(t))), show: fmt.Sprint(complex128(t))}
	case py.String:
		return Obs{K: "text", Txt: codes(string(t)), show: string(t)}
	case py.Tuple:
		if len(t) == 2 {
			a, ok1 := t[0].(py.Float)
			b, ok2 := t[1].(py.Float)
			if ok1 && ok2 {
				return Obs{K: "pairf", B: fbytes(float64(a)), B2: fbytes(float64(b)), show: fmt.Sprint(float64(a), float64(b))}
			}
		}
	}
	return Obs{K: "other-" + o.Type().Name}
}

func obsOfResult(r *pyrun.Result, val py.Object) Obs {
	switch {
	case r.TimedOut:
		return Obs{K: "timeout"}
	case r.Panic != "":
		return Obs{K: "panic", note: r.PanicSite + ": " + r.Panic}
	case r.Exc != "":
		return Obs{K: "exc", Bases: r.ExcBases, note: r.Msg, show: r.Exc}
	}
	return observe(val)
}

type binFn func(a, b py.Object) (py.Object, error)

var binAPI = map[string]binFn{"add": py.Add, "sub": py.Sub, "mul": py.Mul, "truediv": py.TrueDiv, "floordiv": py.FloorDiv, "mod": py.Mod,
	"lt": py.Lt, "le": py.Le, "eq": py.Eq, "ne": py.Ne, "gt": py.Gt, "ge": py.Ge, "cadd": py.Add, "csub": py.Sub, "cmul": py.Mul}
var binSym = map[string]string{"add": "+", "sub": "-", "mul": "*", "truediv": "/", "floordiv": "//", "mod": "%", "pow": "**",
	"lt": "<", "le": "<=", "eq": "==", "ne": "!=", "gt": ">", "ge": ">=", "cadd": "+", "csub": "-", "cmul": "*"}

type apiEnv struct{ builtins py.StringDict }

func (e *apiEnv) builtin(name string, args ...py.Object) (py.Object, error) {
	f, ok := e.builtins[name]
	if !ok {
		return nil, py.ExceptionNewf(py.NameError, "name '%s' is not defined", name)
	}
	return py.Call(f, py.Tuple(args), nil)
}

func guard(f func() (py.Object, error)) Obs {
	var val py.Object
	r := pyrun.Guard(20*time.Second, func() error {
		var err error
		val, err = f()
		return err
	})
	if r.Exc == "GoError" {
		common.Inconclusive("property=C15 %s", r.Msg)
	}
	return obsOfResult(r, val)
}

// run performs the case through the Go API; the second observation is the equivalent formulation (or nil).
func (e *apiEnv) run(c *Case) (Obs, *Obs) {
	var x, y py.Object
	if c.X != nil {
		x = c.X.obj()
	}
	if c.Y != nil {
		y = c.Y.obj()
	}
	o, o2 := e.run1(c, x, y)
	if o.K != "timeout" {
		if x != nil {
			o.after[0] = valOfObject(x)
		}
		if y != nil {
			o.after[1] = valOfObject(y)
		}
	}
	return o, o2
}

func (e *apiEnv) run1(c *Case, x, y py.Object) (Obs, *Obs) {
	switch c.Op {
	case "powagree":
		o := guard(func() (py.Object, error) { return py.Pow(x, y, py.None) })
		o2 := guard(func() (py.Object, error) { return e.builtin("pow", x, y) })
		return o, &o2
	case "divmodagree":
		o := guard(func() (py.Object, error) { return e.builtin("divmod", x, y) })
		o2 := guard(func() (py.Object, error) {
			q, err := py.FloorDiv(x, y)
			if err != nil {
				return nil, err
			}
			r, err := py.Mod(x, y)
			if err != nil {
				return nil, err
			}
			return py.Tuple{q, r}, nil
		})
		return o, &o2
	}
	return guard(func() (py.Object, error) {
		switch c.Op {
		case "divmod":
			q, r, err := py.DivMod(x, y)
			if err != nil {
				return nil, err
			}
			return py.Tuple{q, r}, nil
		case "pow":
			return py.Pow(x, y, py.None)
		case "min2":
			return e.builtin("min", x, y)
		case "max2":
			return e.builtin("max", x, y)
		case "sum2":
			return e.builtin("sum", py.NewListFromItems([]py.Object{x, y}))
		case "neg":
			return py.Neg(x)
		case "pos":
			return py.Pos(x)
		case "abs":
			return e.builtin("abs", x)
		case "truth":
			t, err := py.ObjectIsTrue(x)
			return py.NewBool(t), err
		case "int":
			return py.Call(py.IntType, py.Tuple{x}, nil)
		case "round":
			return e.builtin("round", x)
		case "repr":
			return py.Repr(x)
		case "str":
			return py.Str(x)
		case "float":
			return py.Call(py.FloatType, py.Tuple{x}, nil)
		case "fromstr":
			return py.Call(py.FloatType, py.Tuple{py.String(c.Txt)}, nil)
		}
		if f := binAPI[c.Op]; f != nil {
			return f(x, y)
		}
		return nil, fmt.Errorf("harness: unknown op %s", c.Op)
	}), nil
}

func pyQuote(s string) string {
	var b strings.Builder
	b.WriteByte('\'')
	for _, r := range s {
		switch {
		case r == '\\' || r == '\'':
			b.WriteByte('\\')
			b.WriteRune(r)
		case r == '\n':
			b.WriteString("\\n")
		case r == '\t':
			b.WriteString("\\t")
		case r < 32:
			fmt.Fprintf(&b, "\\x%02x", r)
		default:
			b.WriteRune(r)
		}
	}
	b.WriteByte('\'')
	return b.String()
}

// exprs renders the case as Python expressions (the second is the equivalent formulation or "").
func (c *Case) exprs() (string, string) {
	var x, y string
	if c.X != nil {
		x = c.X.lit()
	}
	if c.Y != nil {
		y = c.Y.lit()
	}
	switch c.Op {
	case "powagree":
		return x + " ** " + y, "pow(" + x + ", " + y + ")"
	case "divmodagree":
		return "divmod(" + x + ", " + y + ")", "(" + x + " // " + y + ", " + x + " % " + y + ")"
	case "divmod":
		return "divmod(" + x + ", " + y + ")", ""
	case "min2":
		return "min(" + x + ", " + y + ")", ""
	case "max2":
		return "max(" + x + ", " + y + ")", ""
	case "sum2":
		return "sum([" + x + ", " + y + "])", ""
	case "neg":
		return "-" + x, ""
	case "pos":
		return "+" + x, ""
	case "truth":
		return "(True if " + x + " else False)", ""
	case "abs", "int", "round", "repr", "str", "float":
		return c.Op + "(" + x + ")", ""
	case "fromstr":
		return "float(" + pyQuote(c.Txt) + ")", ""
	case "literal":
		return c.Txt, ""
	}
	return x + " " + binSym[c.Op] + " " + y, ""
}

func runEval(ctx *pyrun.Ctx, c *Case) (Obs, *Obs) {
	e1, e2 := c.exprs()
	r := ctx.Eval(e1, 30*time.Second)
	o := obsOfResult(r, r.Value)
	if e2 == "" {
		return o, nil
	}
	r2 := ctx.Eval(e2, 30*time.Second)
	o2 := obsOfResult(r2, r2.Value)
	return o, &o2
}

// ---------------------------------------------------------------------------------------
// generating the cases

func fb(bits uint64) float64 { return math.Float64frombits(bits) }

func floatLattice(thorough bool) []float64 {
	inf := math.Inf(1)
	// quick: one representative per boundary; thorough: the neighbours as well
	base := []float64{0, 1, 0.5, 1.5, 2.5, 0.1, 7.5, fb(1), fb(0x0010000000000000), // min subnormal, min normal
		0.49999999999999994, 4503599627370496.5, // near-tie and tie at 2^52
		9007199254740992, 9007199254740994, 9223372036854775808, // 2^53, its neighbour, 2^63
		1e22, 1e308, math.MaxFloat64, inf}
	if thorough {
		for _, k := range []int{-1022, -1, 1, 52, 54, 63, 64, 1023} {
			v := math.Ldexp(1, k)
			base = append(base, v, math.Nextafter(v, inf), math.Nextafter(v, 0))
		}
		base = append(base, 3.5, 0.2, 0.3, 1e16, 1e23, 123456789.125, fb(2), fb(0x000fffffffffffff), fb(0x0010000000000001), 4503599627370497.5,
			9007199254740991, 9223372036854774784, 9223372036854777856, 18446744073709551616, 4611686018427387904, 1e300)
		base = append(base, 2.675, 1e15, 1e-5, 1e-7, 5e-324*3, 1.7976931348623155e308, 0.75, 3, 1e21, 123456789012345.6)
	}
	var out []float64
	seen := map[uint64]bool{}
	for _, v := range base {
		for _, w := range []float64{v, -v} {
			if !seen[math.Float64bits(w)] {
				seen[math.Float64bits(w)] = true
				out = append(out, w)
			}
		}
	}
	return append(out, math.NaN())
}

func pow2(k uint) *big.Int { return new(big.Int).Lsh(big.NewInt(1), k) }

func intLattice(thorough bool) []*big.Int {
	B := func(s string) *big.Int { v, _ := new(big.Int).SetString(s, 10); return v }
	add := func(a *big.Int, d int64) *big.Int { return new(big.Int).Add(a, big.NewInt(d)) }
	maxd := new(big.Int).Sub(pow2(1024), pow2(970)) // the largest double
	out := []*big.Int{B("0"), B("1"), B("-1"), B("2"), B("3"), B("-7"), B("10"),
		pow2(53), add(pow2(53), 1), add(pow2(53), -1), new(big.Int).Neg(add(pow2(53), 1)), add(pow2(54), 2),
		pow2(63), add(pow2(63), -1), new(big.Int).Neg(pow2(63)), pow2(64), B("10000000000000000000000"), B("100000000000000000000000"),
		pow2(1023), maxd, add(maxd, 1), add(new(big.Int).Add(maxd, pow2(969)), -1), new(big.Int).Add(maxd, pow2(969)), pow2(1024), new(big.Int).Neg(pow2(1024)),
		new(big.Int).Exp(big.NewInt(10), big.NewInt(400), nil), B("1000000000000000000000000000000")}
	if thorough {
		out = append(out, B("7"), B("-2"), add(pow2(53), 2), add(pow2(53), 3), add(pow2(54), 1), add(pow2(54), 3), add(pow2(63), 1), add(pow2(64), -1), add(pow2(100), 1),
			new(big.Int).Neg(add(pow2(70), 3)), new(big.Int).Add(pow2(1023), pow2(970)), new(big.Int).Neg(maxd), B("9007199254740993"))
	}
	return out
}

// devOps: development aid for trying the check against mutated copies on a loaded machine: C15_DEV_OPS=add,sub
// restricts the generated cases to those operators (the full run is the union over the operators).
var devOps = func() map[string]bool {
	v := os.Getenv("C15_DEV_OPS")
	if v == "" {
		return nil
	}
	m := map[string]bool{}
	for _, o := range strings.Split(v, ",") {
		m[o] = true
	}
	return m
}()

// roundingFamily is the classic test matrix for rounding an integer of w significant bits to 53: a 53-bit prefix
// (even / odd last kept bit, a prefix with inner bits, the all-ones prefix that carries into the next power of two)
// followed by w-53 low bits that put the exact value at, just below and just above half an ulp, with sticky bits at
// the bottom, in the middle and right below the guard bit (half +- 1 sits below every intermediate precision, so a
// conversion that rounds twice -- first to p bits for any 53 < p < w, then to 53 -- is wrong on one of these).
func roundingFamily(thorough bool) []*big.Int {
	widths := []int{54, 56, 61, 64, 65, 66, 70, 100, 128, 1023, 1024}
	if thorough {
		widths = nil
		for w := 54; w <= 72; w++ {
			widths = append(widths, w)
		}
		widths = append(widths, 80, 100, 117, 128, 129, 192, 512, 1023, 1024)
	}
	prefixes := []*big.Int{pow2(52), new(big.Int).Add(pow2(52), big.NewInt(1)), new(big.Int).Add(pow2(52), pow2(30)),
		new(big.Int).Add(pow2(52), big.NewInt(0x2aaaaaaaaaaab)), new(big.Int).Sub(pow2(53), big.NewInt(1))}
	if !thorough {
		prefixes = append(prefixes[:2], prefixes[3:]...) // quick: even, odd, inner bits, all ones
	}
	var out []*big.Int
	seen := map[string]bool{}
	for _, w := range widths {
		r := uint(w - 53)
		half := pow2(r - 1)
		add := func(a *big.Int, d int64) *big.Int { return new(big.Int).Add(a, big.NewInt(d)) }
		lows := []*big.Int{big.NewInt(0), big.NewInt(1), half, add(half, -1), add(half, 1), new(big.Int).Sub(pow2(r), big.NewInt(1))}
		ks := []uint{r / 2}
		if r >= 3 {
			ks = append(ks, r-2)
		}
		if r >= 14 {
			ks = append(ks, r-12, r-13) // just below / at a 64-bit intermediate precision
		}
		if thorough {
			for k := uint(1); k+1 < r && k <= 8; k++ {
				ks = append(ks, k, r-1-k)
			}
		}
		for _, k := range ks {
			if k == 0 || k+1 >= r {
				continue
			}
			lows = append(lows, new(big.Int).Add(half, pow2(k)), // above half by one middle bit
				add(new(big.Int).Sub(half, pow2(k)), 1),                              // 0 1..1 0..0 1: below half
				add(new(big.Int).Add(new(big.Int).Sub(half, pow2(k)), pow2(k-1)), 1), // below half, tail above half of bit k
				new(big.Int).Sub(half, pow2(k)))
		}
		for _, p := range prefixes {
			for _, lo := range lows {
				if lo.Sign() < 0 || lo.BitLen() > int(r) {
					continue
				}
				n := new(big.Int).Add(new(big.Int).Lsh(p, r), lo)
				if !seen[n.String()] {
					seen[n.String()] = true
					out = append(out, n)
				}
			}
		}
	}
	return out
}

type gen struct {
	rng   *rand.Rand
	env   *common.Env
	cases []*Case
	seen  map[string]bool
}

func (g *gen) add(c Case) {
	if c.Via == "" {
		c.Via = "api"
	}
	if unaryOps[c.Op] || c.Op == "fromstr" || c.Op == "literal" {
		c.Y = nil
	}
	if devOps != nil && !devOps[c.Op] {
		return
	}
	s := c.sig()
	if g.seen[s] {
		return
	}
	g.seen[s] = true
	cc := c
	g.cases = append(g.cases, &cc)
}

// both adds the case through the Go API and, with probability p, also as a compiled expression.
func (g *gen) both(c Case, p float64) {
	g.add(c)
	if g.rng.Float64() < p {
		c.Via = "eval"
		g.add(c)
	}
}

var arithOps = []string{"add", "sub", "mul", "truediv", "floordiv", "mod", "divmod"}
var cmpOps = []string{"lt", "le", "eq", "ne", "gt", "ge"}
var foldOps = []string{"min2", "max2", "sum2", "powagree", "divmodagree"}
var unaryList = []string{"neg", "pos", "abs", "truth", "int", "round", "repr", "str", "float"}

func (g *gen) randFloat() float64 {
	switch g.rng.Intn(10) {
	case 0, 1, 2, 3, 4:
		return fb(g.rng.Uint64()) // any bit pattern: all exponents, subnormals, nans
	case 5, 6:
		return float64(g.rng.Intn(2001)-1000) / []float64{1, 2, 4, 8, 3, 10}[g.rng.Intn(6)]
	case 7:
		return math.Ldexp(float64(g.rng.Int63n(1<<53)), g.rng.Intn(40)-60)
	}
	return (g.rng.Float64() - 0.5) * 2000
}

func (g *gen) randInt() *big.Int {
	bits := 1 + g.rng.Intn(1100)
	if g.rng.Intn(2) == 0 {
		bits = 1 + g.rng.Intn(70)
	}
	v := new(big.Int).Rand(g.rng, pow2(uint(bits)))
	if g.rng.Intn(2) == 0 {
		v.Neg(v)
	}
	return v
}

func (g *gen) generate() (int, int) {
	th := g.env.Thorough()
	fl, il := floatLattice(th), intLattice(th)
	pe := 0.15
	pick := func(q, t int) bool { return g.rng.Intn(g.env.Pick(q, t)) == 0 }
	// float x float: all ordered pairs of the lattice
	for _, a := range fl {
		for _, b := range fl {
			for _, op := range arithOps {
				g.both(Case{Op: op, X: VF(a), Y: VF(b)}, pe)
			}
			for _, op := range cmpOps {
				if pick(3, 2) {
					g.both(Case{Op: op, X: VF(a), Y: VF(b)}, pe)
				}
			}
			for _, op := range foldOps {
				if pick(2, 2) {
					g.both(Case{Op: op, X: VF(a), Y: VF(b)}, pe)
				}
			}
		}
	}
	// mixed: lattice doubles x boundary ints, both orders
	for _, a := range fl {
		for _, i := range il {
			for _, op := range append(append([]string{}, arithOps...), cmpOps...) {
				if pick(2, 2) {
					g.both(Case{Op: op, X: VF(a), Y: VI(i)}, pe)
				}
				if pick(2, 2) {
					g.both(Case{Op: op, X: VI(i), Y: VF(a)}, pe)
				}
			}
			for _, op := range foldOps {
				if pick(4, 2) {
					g.both(Case{Op: op, X: VF(a), Y: VI(i)}, pe)
				}
				if pick(4, 2) {
					g.both(Case{Op: op, X: VI(i), Y: VF(a)}, pe)
				}
			}
		}
	}
	// int / int (true division is correctly rounded from the exact quotient), float(int)
	for _, i := range il {
		for _, j := range il {
			g.both(Case{Op: "truediv", X: VI(i), Y: VI(j)}, pe)
		}
		g.both(Case{Op: "float", X: VI(i)}, 0.5)
	}
	// the rounding-position family for int -> float (see roundingFamily): every combination of last kept bit, guard
	// bit, round bits and sticky tail, as operand of float(), of mixed + * / and of exact comparisons with its two
	// neighbouring doubles
	one, zero := VF(1.0), VF(0.0)
	for k, n := range roundingFamily(th) {
		neg := new(big.Int).Neg(n)
		g.both(Case{Op: "float", X: VI(n)}, 0.2)
		if th || k%2 == 1 {
			g.both(Case{Op: "float", X: VI(neg)}, 0.1)
		}
		m := n
		if k%4 == 3 {
			m = neg
		}
		g.both(Case{Op: "truediv", X: VI(m), Y: one}, 0.1)
		if k%2 == 0 {
			g.both(Case{Op: "add", X: VI(m), Y: zero}, 0.1)
			g.both(Case{Op: "mul", X: one, Y: VI(m)}, 0.1)
		} else {
			g.both(Case{Op: "add", X: zero, Y: VI(m)}, 0.1)
			g.both(Case{Op: "mul", X: VI(m), Y: one}, 0.1)
		}
		// the doubles just below and above |n| (the 53-bit prefix and its successor: exact by construction)
		r := uint(n.BitLen() - 53)
		down := new(big.Int).Lsh(new(big.Int).Rsh(n, r), r)
		up := new(big.Int).Add(down, pow2(r))
		for j, d := range []*big.Int{down, up} {
			f, acc := new(big.Float).SetInt(d).Float64()
			if acc != big.Exact || math.IsInf(f, 0) {
				continue
			}
			g.add(Case{Op: []string{"eq", "lt", "ge", "ne", "gt", "le"}[(k+3*j)%6], X: VI(n), Y: VF(f)})
			if k%3 == 0 {
				g.add(Case{Op: []string{"gt", "eq", "le"}[(k/3+j)%3], X: VF(-f), Y: VI(neg)})
			}
		}
	}
	// unary operators and conversions on every lattice double; text -> float on spellings of it
	for _, a := range fl {
		for _, op := range unaryList {
			g.both(Case{Op: op, X: VF(a)}, 0.5)
		}
		g.texts(a)
	}
	for _, t := range []string{"1e400", "-1e400", "1e-400", "-1e-400", ".5", "5.", "1e", "--1", "+1.5E+3", "Infinity", "-INF", "NaN", "nan", "inf", "", " ", "0x10", "1e5", "1E-5", " 2.5\n", "1.5x", "0.1e1", "00.5", "1.7976931348623159e308", "4.9406564584124654e-324", "2.4703282292062327e-324", "2.4703282292062328e-324"} {
		g.both(Case{Op: "fromstr", Txt: t}, 0.5)
	}
	// pow: the special cases Python defines independently of libm, and pow() == **
	pb := []float64{0, math.Copysign(0, -1), 1, -1, 2, -2, 0.5, -0.5, 1e308, -1e308, 1e-300, math.Inf(1), math.Inf(-1), math.NaN(), 3, 1e200}
	pex := []float64{0, math.Copysign(0, -1), 1, -1, 2, -2, 3, -3, 0.5, -0.5, 4, 8, 1e300, math.Inf(1), math.Inf(-1), math.NaN(), 2.5}
	for _, a := range pb {
		for _, b := range pex {
			g.both(Case{Op: "powagree", X: VF(a), Y: VF(b)}, 0.5)
			if b == math.Trunc(b) && math.Abs(b) < 100 {
				g.both(Case{Op: "powagree", X: VF(a), Y: VI(big.NewInt(int64(b)))}, 0.3)
			}
		}
	}
	// complex: component-wise + and -, textbook *; mixed with floats and ints
	cv := []float64{0, math.Copysign(0, -1), 1.5, -2.5, 1e308, 5e-324, math.Inf(1), math.NaN(), 0.1}
	var cl []complex128
	for _, re := range cv {
		for _, im := range cv {
			cl = append(cl, complex(re, im))
		}
	}
	nc := g.env.Pick(700, 6000)
	for n := 0; n < nc; n++ {
		a := cl[g.rng.Intn(len(cl))]
		op := []string{"cadd", "csub", "cmul"}[g.rng.Intn(3)]
		var other *Val
		switch g.rng.Intn(5) {
		case 0:
			other = VF(fl[g.rng.Intn(len(fl))])
		case 1:
			other = VI(il[g.rng.Intn(len(il))])
		case 2:
			other = VC(complex(g.randFloat(), g.randFloat()))
		default:
			other = VC(cl[g.rng.Intn(len(cl))])
		}
		if g.rng.Intn(2) == 0 {
			g.both(Case{Op: op, X: VC(a), Y: other}, pe)
		} else {
			g.both(Case{Op: op, X: other, Y: VC(a)}, pe)
		}
	}
	// seeded random bit patterns and ints
	nr := g.env.Pick(400, 5000)
	for n := 0; n < nr; n++ {
		a, b := g.randFloat(), g.randFloat()
		i := g.randInt()
		for _, op := range arithOps {
			g.both(Case{Op: op, X: VF(a), Y: VF(b)}, pe)
		}
		op := append(append([]string{}, arithOps...), cmpOps...)[g.rng.Intn(13)]
		g.both(Case{Op: op, X: VF(a), Y: VI(i)}, pe)
		g.both(Case{Op: op, X: VI(i), Y: VF(b)}, pe)
		g.both(Case{Op: cmpOps[g.rng.Intn(6)], X: VF(a), Y: VF(b)}, pe)
		g.both(Case{Op: foldOps[g.rng.Intn(len(foldOps))], X: VF(a), Y: VF(b)}, pe)
		g.both(Case{Op: "truediv", X: VI(i), Y: VI(g.randInt())}, pe)
		g.both(Case{Op: "float", X: VI(i)}, pe)
		g.both(Case{Op: unaryList[g.rng.Intn(len(unaryList))], X: VF(a)}, pe)
		if n%4 == 0 {
			g.both(Case{Op: "repr", X: VF(b)}, pe)
			g.both(Case{Op: "round", X: VF(float64(g.rng.Intn(2000)-1000) + []float64{0.5, 0.25, 0.75, 0.5000000001}[g.rng.Intn(4)])}, pe)
			g.both(Case{Op: "int", X: VF(b)}, pe)
			g.texts(a)
		}
	}
	return len(fl), len(il)
}

// texts: float(text) for spellings of x, and the literal forms used by the compiled-expression route.
func (g *gen) texts(x float64) {
	if math.IsNaN(x) || math.IsInf(x, 0) {
		return
	}
	forms := []string{strconv.FormatFloat(x, 'g', -1, 64), strconv.FormatFloat(x, 'g', 17, 64), strconv.FormatFloat(x, 'e', 3, 64),
		strconv.FormatFloat(x, 'g', 25, 64), strings.ToUpper(strconv.FormatFloat(x, 'e', -1, 64)), " " + strconv.FormatFloat(x, 'f', -1, 64) + "\n"}
	t := forms[g.rng.Intn(len(forms))]
	if len(t) < 400 {
		g.both(Case{Op: "fromstr", Txt: t}, 0.3)
	}
	// the literal itself, as the lexer reads it (operands of the compiled-expression route are written this way)
	if l := strconv.FormatFloat(math.Abs(x), 'g', -1, 64); strings.ContainsAny(l, ".e") {
		g.add(Case{Op: "literal", Via: "eval", Txt: l})
	}
}

// ---------------------------------------------------------------------------------------
// main

type showF struct {
	K string `json:"k"`
	S int    `json:"s"`
	M []int  `json:"m"`
	E int    `json:"e"`
}

func (f *showF) String() string {
	if f == nil {
		return "?"
	}
	switch f.K {
	case "nan":
		return "nan"
	case "inf":
		if f.S == 1 {
			return "-inf"
		}
		return "inf"
	}
	m := decZ(&Z{S: 1, M: f.M})
	sign := ""
	if f.S == 1 {
		sign = "-"
	}
	x := new(big.Float).SetInt(m)
	x.SetMantExp(x, f.E)
	v, _ := x.Float64()
	return fmt.Sprintf("%s%s (= %s%s * 2^%d)", sign, strconv.FormatFloat(v, 'g', -1, 64), sign, m.String(), f.E)
}

type badRec struct {
	L   int    `json:"l"`
	Key string `json:"key"`
	Exp *struct {
		K     string `json:"k"`
		F     *showF `json:"f"`
		F2    *showF `json:"f2"`
		V     *Z     `json:"v"`
		T     int    `json:"t"`
		Ename string `json:"ename"`
	} `json:"exp"`
}

func mixOf(c *Case) string {
	m := ""
	for _, v := range []*Val{c.X, c.Y} {
		if v != nil {
			m += v.T
		}
	}
	if m == "" {
		m = "text"
	}
	return m
}

func describe(c *Case, o Obs, o2 *Obs) map[string]interface{} {
	d := map[string]interface{}{"op": c.Op, "via": c.Via}
	if c.X != nil {
		d["x"], d["xr"] = c.X.String(), c.X.raw()
	}
	if c.Y != nil {
		d["y"], d["yr"] = c.Y.String(), c.Y.raw()
	}
	if c.Txt != "" {
		d["text"] = c.Txt
	}
	e1, e2 := c.exprs()
	d["python"] = e1
	ob := map[string]interface{}{"kind": o.K, "value": o.show}
	if o.note != "" {
		ob["note"] = o.note
	}
	d["observed"] = ob
	if o2 != nil {
		d["python_equivalent"] = e2
		d["observed_equivalent"] = map[string]interface{}{"kind": o2.K, "value": o2.show}
	}
	return d
}

func main() {
	env := common.Setup()
	rep := common.NewReport(env, "model_checking")
	rep.Assumptions = []string{
		"TLC and the CommunityModules (Json, Bitwise, SequencesExt folds) are correct",
		"the harness transports doubles as the 8 bytes of math.Float64bits and ints through math/big faithfully",
		"operands of the compiled-expression route are written as shortest decimal literals; each literal used is itself validated as a 'literal' line (the specification converts the text with correct rounding)",
		"float ** float beyond the special cases, and math.*, are libm-defined and not specified (only pow() == ** agreement, error and special cases)",
	}
	g := &gen{rng: rand.New(rand.NewSource(env.Seed)), env: env, seen: map[string]bool{}}
	nf, ni := 0, 0
	var lawsDone chan *common.TLCResult
	lawsCfg := ""
	if env.Replay != "" {
		b, err := os.ReadFile(env.Replay)
		if err != nil {
			common.Inconclusive("property=C15 replay: %v", err)
		}
		var rp struct {
			Case struct {
				Op, Via, Xr, Yr, Text string
			} `json:"case"`
		}
		if err := json.Unmarshal(b, &rp); err != nil || rp.Case.Op == "" {
			common.Inconclusive("property=C15 replay file %s does not hold a case: %v", env.Replay, err)
		}
		g.cases = []*Case{{Op: rp.Case.Op, Via: rp.Case.Via, X: valOfRaw(rp.Case.Xr), Y: valOfRaw(rp.Case.Yr), Txt: rp.Case.Text}}
	} else {
		// design check (laws of the PyFloat module on a lattice of doubles + pinned repr/float(text) cases), concurrently
		if os.Getenv("C15_DEV_NOLAWS") != "1" { // development aid: skip while trying mutated copies
			lawsCfg = "laws_quick.cfg"
			if env.Thorough() {
				lawsCfg = "laws_thorough.cfg"
			}
			lawsDone = make(chan *common.TLCResult, 1)
			lw := env.Workers / 4 // the design check gets a quarter of the workers, the trace validators share the rest
			if lw < 1 {
				lw = 1
			}
			go func() {
				lawsDone <- env.MustTLC(common.TLCRun{Dir: "C15", Module: "PyFloatLaws", Config: lawsCfg, Workers: lw, Timeout: 14 * time.Minute})
			}()
		}
		nf, ni = g.generate()
	}

	tRun := time.Now()
	obs := make([]Obs, len(g.cases))
	obs2 := make([]*Obs, len(g.cases))
	total := len(g.cases)
	bctx := pyrun.New()
	api := &apiEnv{builtins: bctx.Ctx.Store().Builtins.Globals}
	var evalIdx []int
	cut := -1
	for i, c := range g.cases {
		if c.Via != "api" {
			evalIdx = append(evalIdx, i)
			continue
		}
		obs[i], obs2[i] = api.run(c)
		if obs[i].K == "timeout" {
			cut = i // the goroutine cannot be killed: stop here, validate what was recorded
			break
		}
	}
	if cut >= 0 {
		g.cases = g.cases[:cut+1]
		var keep []int
		for _, i := range evalIdx {
			if i <= cut {
				keep = append(keep, i)
			}
		}
		evalIdx = keep
	}
	var wg sync.WaitGroup
	nw := env.Workers
	per := (len(evalIdx) + nw - 1) / nw
	for w := 0; w < nw && per > 0; w++ {
		lo, hi := w*per, (w+1)*per
		if lo >= len(evalIdx) {
			break
		}
		if hi > len(evalIdx) {
			hi = len(evalIdx)
		}
		wg.Add(1)
		go func(idx []int) {
			defer wg.Done()
			ctx := pyrun.New()
			defer ctx.Close()
			for _, i := range idx {
				obs[i], obs2[i] = runEval(ctx, g.cases[i])
			}
		}(evalIdx[lo:hi])
	}
	wg.Wait()
	bctx.Close()
	runWall := time.Since(tRun).Seconds()

	// the trace, sharded round-robin; four TLC processes at a time
	nShards := (len(g.cases) + 29999) / 30000
	par := 2 // concurrent TLC processes (the machine-wide limiter of harness/common has 3 slots; the design check takes one)
	if nShards < par {
		nShards = par
	}
	if len(g.cases) < 2000 {
		nShards, par = 1, 1
	}
	shards := make([]bytes.Buffer, nShards)
	index := make([][]int, nShards)
	opCount, viaCount, kindCount, mixCount := map[string]int{}, map[string]int{}, map[string]int{}, map[string]int{}
	operandsReread := 0
	for i, c := range g.cases {
		op := c.Op
		ln := Line{Op: op, X: c.X, Y: c.Y, O: obs[i], O2: obs2[i]}
		if c.Via == "api" {
			unreadable := &Val{T: "gone"}
			if c.X != nil {
				if ln.XA = obs[i].after[0]; ln.XA == nil {
					ln.XA = unreadable
				}
				operandsReread++
			}
			if c.Y != nil {
				if ln.YA = obs[i].after[1]; ln.YA == nil {
					ln.YA = unreadable
				}
				operandsReread++
			}
		}
		if op == "literal" {
			ln.Op = "fromstr" // a float literal in source text denotes what float(text) denotes
		}
		if c.Op == "fromstr" || c.Op == "literal" {
			ln.Txt = codes(c.Txt)
		}
		js, err := json.Marshal(ln)
		if err != nil {
			common.Inconclusive("property=C15 marshal: %v", err)
		}
		s := i % nShards
		shards[s].Write(js)
		shards[s].WriteByte('\n')
		index[s] = append(index[s], i)
		opCount[op]++
		viaCount[c.Via]++
		kindCount[obs[i].K]++
		m := ""
		for _, v := range []*Val{c.X, c.Y} {
			if v != nil {
				m += v.T
			}
		}
		mixCount["operands_"+m]++
	}
	type hit struct {
		idx int
		rec badRec
	}
	var mu sync.Mutex
	var hits []hit
	var machinery []string
	tTLC := time.Now()
	semT := make(chan struct{}, par)
	var wgT sync.WaitGroup
	workers := env.Workers / par
	if lawsDone != nil {
		workers = (env.Workers - env.Workers/4) / par
	}
	if workers < 1 {
		workers = 1
	}
	for s := 0; s < nShards; s++ {
		if len(index[s]) == 0 {
			continue
		}
		wgT.Add(1)
		semT <- struct{}{}
		go func(s int) {
			defer wgT.Done()
			defer func() { <-semT }()
			res := env.MustTLC(common.TLCRun{Dir: "C15", Module: "PyFloatTrace", Config: "trace.cfg", Workers: workers,
				Extra: map[string]string{"trace.ndjson": shards[s].String()}, Timeout: 14 * time.Minute,
				OnLine: func(b []byte) {
					var r badRec
					if json.Unmarshal(b, &r) != nil || r.L < 1 || r.L > len(index[s]) {
						mu.Lock()
						machinery = append(machinery, "unreadable record from TLC: "+string(b))
						mu.Unlock()
						return
					}
					mu.Lock()
					hits = append(hits, hit{index[s][r.L-1], r})
					mu.Unlock()
				}})
			if !res.Finished || len(res.Violations) > 0 || res.Distinct != int64(2*len(index[s])) {
				mu.Lock()
				machinery = append(machinery, fmt.Sprintf("trace shard %d: finished=%v violations=%v states=%d for %d lines\n%s", s, res.Finished, res.Violations, res.Distinct, len(index[s]), res.Stdout))
				mu.Unlock()
			}
			rep.AddTLC(res)
		}(s)
	}
	wgT.Wait()
	if len(machinery) > 0 {
		common.Inconclusive("property=C15 %s", strings.Join(machinery, "\n"))
	}
	if lawsDone != nil {
		res := <-lawsDone
		if len(res.Violations) > 0 || !res.Finished {
			common.Inconclusive("property=C15 the specification's own laws fail (spec error, not a verdict): %v\n%s", res.Violations, res.Stdout)
		}
		rep.AddTLC(res)
		rep.Extra["design_check"] = map[string]interface{}{"module": "PyFloatLaws", "config": lawsCfg, "lattice_pairs": res.Distinct / 2, "states": res.Distinct, "wall_s": res.Wall.Seconds()}
	}
	sort.Slice(hits, func(i, j int) bool { return hits[i].idx < hits[j].idx })
	rejectedByOp := map[string]int{}
	rejectedByMix := map[string]int{}
	for _, h := range hits {
		c := g.cases[h.idx]
		d := describe(c, obs[h.idx], obs2[h.idx])
		if h.rec.Key == "OOD" {
			common.Inconclusive("property=C15 the harness produced a line outside the specification's domain: %+v", d)
		}
		if e := h.rec.Exp; e != nil {
			ex := map[string]interface{}{"kind": e.K}
			switch e.K {
			case "float", "repr":
				ex["value"] = e.F.String()
			case "pairf", "complex":
				ex["value"], ex["value2"] = e.F.String(), e.F2.String()
			case "int":
				ex["value"] = decZ(e.V).String()
			case "bool":
				ex["truth"] = e.T
			case "exc":
				ex["exception"] = e.Ename
			}
			d["expected_by_spec"] = ex
		}
		rejectedByOp[c.Op]++
		rejectedByMix[c.Op+"["+mixOf(c)+"]"]++
		rep.Violation(h.rec.Key, d)
	}

	// evidence: which clauses hold today = operators x operand mixes with lines and no rejected line
	rep.Evaluations = int64(len(g.cases))
	rep.Distinct = int64(len(g.cases))
	rep.Traces = int64(len(g.cases))
	rep.Rule = "a case is one (operator, route, operand bit patterns / integer values | text) tuple; duplicates are removed before running; every line is validated against the specification's exact result"
	rep.Exhaustive = false
	for i := 0; i < len(g.cases) && i < 5; i++ {
		k := (i*7919 + int(env.Seed)*31) % len(g.cases)
		rep.Sample(describe(g.cases[k], obs[k], obs2[k]))
	}
	var holds []string
	for op, n := range opCount {
		if rejectedByOp[op] == 0 {
			holds = append(holds, fmt.Sprintf("%s (%d lines)", op, n))
		}
	}
	sort.Strings(holds)
	rep.Extra["operators_with_no_rejected_line"] = holds
	// the clauses that hold today, per operator and operand types (f = float, i = int, c = complex): every line accepted
	linesByMix := map[string]int{}
	for _, c := range g.cases {
		linesByMix[c.Op+"["+mixOf(c)+"]"]++
	}
	var holdsMix []string
	partial := map[string]string{}
	for k, n := range linesByMix {
		if rejectedByMix[k] == 0 {
			holdsMix = append(holdsMix, fmt.Sprintf("%s: all %d lines accepted", k, n))
		} else {
			partial[k] = fmt.Sprintf("%d of %d lines rejected", rejectedByMix[k], n)
		}
	}
	sort.Strings(holdsMix)
	rep.Extra["clauses_holding_today"] = holdsMix
	rep.Extra["clauses_with_rejected_lines"] = partial
	rep.Extra["lines_rejected_by_operator"] = rejectedByOp
	rep.Extra["float_lattice_values"] = nf
	rep.Extra["int_lattice_values"] = ni
	rep.Extra["lines_by_operator"] = opCount
	rep.Extra["lines_by_route"] = viaCount
	rep.Extra["lines_by_observed_kind"] = kindCount
	rep.Extra["lines_by_operand_types"] = mixCount
	rep.Extra["lines_rejected_by_spec"] = len(hits)
	rep.Extra["operands_reread_after_the_operation"] = operandsReread
	rep.Extra["cases_dropped_after_timeout"] = total - len(g.cases)
	rep.Extra["run_wall_s"] = runWall
	rep.Extra["tlc_trace_wall_s"] = time.Since(tTLC).Seconds()
	rep.Extra["trace_shards"] = nShards
	rep.Extra["not_covered"] = "float ** float beyond Python's special cases (libm), math.*, round(x, n), complex division/pow/abs; no lattice point was dropped for cost (exponent gaps up to 2^2098 are evaluated exactly)"
	rep.Finish()
}
