//go:build verif

// C09: Context Close/Done are safe under every interleaving with execution.
//
//  1. TLC checks the clauses of C09 on spec/C09/Lifecycle.tla (free-running wake-up) for every
//     script assignment within the tier's bounds (design check, includes liveness for 2 goroutines).
//  2. TLC exports the labelled state graph of the scheduler view (AtomicWake) as JSON edges.
//  3. R-binding: every edge of that graph is replayed on a real py.Context with a controlling
//     scheduler built on the verif yield points; after every step the projected real state
//     (closing, closed, running, done, callback rounds, results, parked points, blocked set) is
//     compared with the model state.
//  4. T-binding: free-running stress (see stress.go) validated by TLC against LifecycleAbs.
package main

import (
	"bytes"
	"encoding/json"
	"fmt"
	"math/rand"
	"os"
	"path/filepath"
	"runtime"
	"sort"
	"strconv"
	"strings"
	"sync"
	"sync/atomic"
	"time"

	"gpverif/common"

	"github.com/go-python/gpython/py"
	"github.com/go-python/gpython/stdlib"
)

type State struct {
	Closing bool                `json:"closing"`
	Closed  bool                `json:"closed"`
	Running int                 `json:"running"`
	Done    bool                `json:"done"`
	Cbs     int                 `json:"cbs"`
	Pc      map[string]string   `json:"pc"`
	Res     map[string][]string `json:"res"`
	Ip      map[string]int      `json:"ip"`
	Bad     []string            `json:"bad"`
}
type EdgeRec struct {
	Script map[string][]string `json:"script"`
	Src    json.RawMessage     `json:"src"`
	P      string              `json:"p"`
	Dst    json.RawMessage     `json:"dst"`
}

type edge struct {
	src, dst int
	p        string
}
type graph struct {
	script map[string][]string
	procs  []string
	states []*State
	index  map[string]int
	edges  []edge
	out    map[int][]int
}

func gid() int64 {
	var buf [64]byte
	n := runtime.Stack(buf[:], false)
	f := bytes.Fields(buf[:n])
	id, _ := strconv.ParseInt(string(f[1]), 10, 64)
	return id
}

type arrival struct{ proc, point string }

// run is one real context driven along one path of the model graph.
type run struct {
	g      *graph
	ctx    py.Context
	mu     sync.Mutex
	procOf map[int64]string
	gate   map[string]chan struct{}
	arrive chan arrival
	parked map[string]string
	free   int32
	res    map[string][]string
	cbs    int32
	wgAll  sync.WaitGroup
	// lateDone: this path does not call ctx.Done() before the model says the context is closed, so
	// that the FIRST Done() call of the context's life lands after the wait is over (a lazily
	// created channel must still not be signalled before the callbacks have run)
	lateDone bool
}

var (
	runs    sync.Map // py.Context -> *run
	codeY   *py.Code // y()
	codeYR  *py.Code // y(); raise
	racDir  string
	modSeq  int64
	settleT = 3 * time.Millisecond
)

func (r *run) yield(point string) {
	if atomic.LoadInt32(&r.free) == 1 {
		return
	}
	r.mu.Lock()
	p, ok := r.procOf[gid()]
	g := r.gate[p]
	r.mu.Unlock()
	if !ok {
		return
	}
	r.arrive <- arrival{p, point}
	<-g
}

func newRun(g *graph) *run {
	r := &run{g: g, procOf: map[int64]string{}, gate: map[string]chan struct{}{}, arrive: make(chan arrival, 64),
		parked: map[string]string{}, res: map[string][]string{}}
	r.ctx = py.NewContext(py.ContextOpts{SysPaths: []string{racDir}})
	_, err := r.ctx.ModuleInit(&py.ModuleImpl{Info: py.ModuleInfo{Name: "vcb"},
		OnContextClosed: func(*py.Module) { atomic.AddInt32(&r.cbs, 1) }})
	if err != nil {
		common.Inconclusive("property=C09 cannot create callback module: %v", err)
	}
	runs.Store(r.ctx, r)
	for _, p := range g.procs {
		r.gate[p] = make(chan struct{})
	}
	for _, p := range g.procs {
		p := p
		r.wgAll.Add(1)
		started := make(chan struct{})
		go func() {
			defer r.wgAll.Done()
			r.mu.Lock()
			r.procOf[gid()] = p
			r.mu.Unlock()
			close(started)
			for _, op := range g.script[p] {
				out := r.doOp(p, op)
				r.mu.Lock()
				r.res[p] = append(r.res[p], out)
				r.mu.Unlock()
			}
			if atomic.LoadInt32(&r.free) == 0 {
				r.arrive <- arrival{p, "fin"}
			}
		}()
		<-started
	}
	return r
}

func (r *run) yMethod() *py.Method {
	return py.MustNewMethod("y", func(self py.Object) (py.Object, error) { r.yield("exec"); return py.None, nil }, 0, "")
}

func (r *run) doOp(p, op string) (out string) {
	defer func() {
		if e := recover(); e != nil {
			out = "panic"
		}
	}()
	switch op {
	case "run", "runr", "minit", "minitr", "minitc", "rac", "racx":
		return execOp(r.ctx, op, r.yMethod())
	case "close":
		r.ctx.Close()
		return "closed"
	case "wait":
		r.yield("w_recv")
		<-r.ctx.Done()
		r.yield("w_end")
		return "done"
	}
	return "?"
}

// execOp performs one execution request of the script alphabet on ctx (see spec/C09/Lifecycle.tla).
func execOp(ctx py.Context, op string, y *py.Method) string {
	var err error
	switch op {
	case "run", "runr":
		g := py.NewStringDict()
		g["y"] = y
		code := codeY
		if op == "runr" {
			code = codeYR
		}
		_, err = ctx.RunCode(code, g, g, nil)
	case "minit", "minitr":
		name := "vm" + strconv.FormatInt(atomic.AddInt64(&modSeq, 1), 10)
		code := codeY
		if op == "minitr" {
			code = codeYR
		}
		_, err = ctx.ModuleInit(&py.ModuleImpl{Info: py.ModuleInfo{Name: name}, Methods: []*py.Method{y}, Code: code})
	case "minitc":
		name := "vm" + strconv.FormatInt(atomic.AddInt64(&modSeq, 1), 10)
		_, err = ctx.ModuleInit(&py.ModuleImpl{Info: py.ModuleInfo{Name: name}, CodeSrc: "def (:\n"})
	case "rac":
		_, err = ctx.ResolveAndCompile("racmod.py", py.CompileOpts{CurDir: racDir})
	case "racx":
		_, err = ctx.ResolveAndCompile("nosuchfile.py", py.CompileOpts{CurDir: racDir})
	}
	if err != nil {
		return "err"
	}
	return "ok"
}

var blockedPcs = map[string]bool{"in_wait": true, "in_once": true, "in_done": true}

func expect(st *State) (want map[string]string, blocked []string) {
	want = map[string]string{}
	for p, pc := range st.Pc {
		if blockedPcs[pc] {
			blocked = append(blocked, p)
		} else {
			want[p] = pc
		}
	}
	return
}

type mismatch struct {
	kind, msg string
}

// settle waits until every goroutine the model says is runnable is parked at the model's point;
// goroutines the model says are blocked must not arrive anywhere.
func (r *run) settle(want map[string]string, blocked []string, window bool) *mismatch {
	deadline := time.After(2 * time.Second)
	pending := 0
	for p, pt := range want {
		if r.parked[p] != pt {
			pending++
		}
	}
	for pending > 0 {
		select {
		case a := <-r.arrive:
			r.parked[a.proc] = a.point
			if w, ok := want[a.proc]; !ok {
				return &mismatch{"blocked-arrived", fmt.Sprintf("goroutine %s should be blocked but arrived at %s", a.proc, a.point)}
			} else if w != a.point {
				return &mismatch{"wrong-point", fmt.Sprintf("goroutine %s arrived at %s, model says %s", a.proc, a.point, w)}
			}
			pending--
		case <-deadline:
			var miss []string
			for p, pt := range want {
				if r.parked[p] != pt {
					miss = append(miss, p+"@"+pt)
				}
			}
			sort.Strings(miss)
			return &mismatch{"no-arrival", "timeout: goroutines that the model says proceed never arrived: " + strings.Join(miss, ",")}
		}
	}
	if window && len(blocked) > 0 {
		select {
		case a := <-r.arrive:
			r.parked[a.proc] = a.point
			return &mismatch{"blocked-arrived", fmt.Sprintf("goroutine %s should be blocked but arrived at %s", a.proc, a.point)}
		case <-time.After(settleT):
		}
	}
	return nil
}

// compare retries for a while before it reports: a goroutine released into a blocking primitive
// (idle.Wait, Once.Do, channel receive) gives no positive signal when it has got there, and every
// other goroutine is parked, so the projected state can only converge. Waiting longer can hide
// nothing: a state that really differs still differs after the timeout.
func (r *run) compare(st *State) *mismatch {
	var mm *mismatch
	for i := 0; i < 400; i++ {
		if mm = r.compare1(st); mm == nil {
			return nil
		}
		if i < 50 {
			runtime.Gosched()
		} else {
			time.Sleep(500 * time.Microsecond)
		}
	}
	return mm
}

func (r *run) compare1(st *State) *mismatch {
	closing, closed, running := stdlib.VerifLifecycle(r.ctx)
	done := false
	if r.lateDone && !st.Closed {
		done = st.Done // not observed on this path yet
	} else {
		select {
		case <-r.ctx.Done():
			done = true
		default:
		}
	}
	cbs := int(atomic.LoadInt32(&r.cbs))
	if closing != st.Closing || closed != st.Closed || running != st.Running || done != st.Done || cbs != st.Cbs {
		var d []string
		if closing != st.Closing {
			d = append(d, "closing")
		}
		if closed != st.Closed {
			d = append(d, "closed")
		}
		if running != st.Running {
			d = append(d, "running")
		}
		if done != st.Done {
			d = append(d, "done")
		}
		if cbs != st.Cbs {
			d = append(d, "cbs")
		}
		return &mismatch{"state:" + strings.Join(d, "+"), fmt.Sprintf("real closing=%v closed=%v running=%d done=%v cbs=%d; model closing=%v closed=%v running=%d done=%v cbs=%d",
			closing, closed, running, done, cbs, st.Closing, st.Closed, st.Running, st.Done, st.Cbs)}
	}
	r.mu.Lock()
	defer r.mu.Unlock()
	for p, want := range st.Res {
		got := r.res[p]
		if strings.Join(got, ",") != strings.Join(want, ",") {
			return &mismatch{"results", fmt.Sprintf("results of %s: real %v model %v", p, got, want)}
		}
	}
	return nil
}

// drain lets every goroutine run freely to the end; a goroutine that cannot finish is a real deadlock.
func (r *run) drain() error {
	atomic.StoreInt32(&r.free, 1)
	for _, p := range r.g.procs {
		close(r.gate[p])
	}
	ch := make(chan struct{})
	go func() { r.wgAll.Wait(); close(ch) }()
	// goroutines waiting for Done when nobody closes are released by closing the context ourselves
	closer := time.AfterFunc(20*time.Millisecond, func() { r.ctx.Close() })
	defer closer.Stop()
	for {
		select {
		case <-r.arrive:
		case <-ch:
			runs.Delete(r.ctx)
			r.ctx.Close()
			return nil
		case <-time.After(3 * time.Second):
			runs.Delete(r.ctx)
			return fmt.Errorf("goroutines stuck after releasing all gates")
		}
	}
}

func scriptKey(s map[string][]string) string {
	var ps []string
	for p := range s {
		ps = append(ps, p)
	}
	sort.Strings(ps)
	var b strings.Builder
	for _, p := range ps {
		b.WriteString(p + "=" + strings.Join(s[p], ",") + ";")
	}
	return b.String()
}

func loadGraphs(env *common.Env, rep *common.Report, cfg string, extra map[string]string, module string) []*graph {
	byScript := map[string]*graph{}
	var order []string
	res := env.MustTLC(common.TLCRun{Dir: "C09", Module: module, Config: cfg, Extra: extra, Timeout: 15 * time.Minute,
		OnLine: func(b []byte) {
			var e EdgeRec
			if err := json.Unmarshal(b, &e); err != nil {
				common.Inconclusive("property=C09 bad edge record: %v", err)
			}
			k := scriptKey(e.Script)
			g := byScript[k]
			if g == nil {
				g = &graph{script: e.Script, index: map[string]int{}, out: map[int][]int{}}
				for p := range e.Script {
					g.procs = append(g.procs, p)
				}
				sort.Strings(g.procs)
				byScript[k] = g
				order = append(order, k)
			}
			id := func(raw json.RawMessage) int {
				if i, ok := g.index[string(raw)]; ok {
					return i
				}
				st := &State{}
				if err := json.Unmarshal(raw, st); err != nil {
					common.Inconclusive("property=C09 bad state: %v", err)
				}
				g.index[string(raw)] = len(g.states)
				g.states = append(g.states, st)
				return len(g.states) - 1
			}
			s, d := id(e.Src), id(e.Dst)
			g.edges = append(g.edges, edge{s, d, e.P})
			g.out[s] = append(g.out[s], len(g.edges)-1)
		}})
	if len(res.Violations) > 0 {
		common.Inconclusive("property=C09 the specification itself violates %v (spec/C09, config %s)", res.Violations, cfg)
	}
	rep.AddTLC(res)
	sort.Strings(order)
	var gs []*graph
	for _, k := range order {
		gs = append(gs, byScript[k])
	}
	return gs
}

// initial state of a script's graph: the state that is no edge's destination
func (g *graph) initState() int {
	isDst := make([]bool, len(g.states))
	for _, e := range g.edges {
		if e.dst != e.src {
			isDst[e.dst] = true
		}
	}
	for i := range g.states {
		if !isDst[i] {
			return i
		}
	}
	return 0
}

// after this many diverging paths the replay stops: the verdict is settled and every further
// diverging path costs seconds of time-outs
const maxMismatches = 12

var nMismatch int32

type stats struct {
	paths, steps, edges, covered int
}

func replayGraph(g *graph, rep *common.Report, st *stats) {
	init := g.initState()
	parent := map[int]int{init: -1}
	queue := []int{init}
	for len(queue) > 0 {
		s := queue[0]
		queue = queue[1:]
		for _, ei := range g.out[s] {
			if _, ok := parent[g.edges[ei].dst]; !ok {
				parent[g.edges[ei].dst] = ei
				queue = append(queue, g.edges[ei].dst)
			}
		}
	}
	covered := make([]bool, len(g.edges))
	st.edges += len(g.edges)
	for target := range g.edges {
		if covered[target] {
			continue
		}
		if atomic.LoadInt32(&nMismatch) >= maxMismatches {
			break
		}
		if _, ok := parent[g.edges[target].src]; !ok {
			continue // not reachable from this script's initial state (cannot happen)
		}
		var path []int
		for s := g.edges[target].src; parent[s] != -1; s = g.edges[parent[s]].src {
			path = append([]int{parent[s]}, path...)
		}
		path = append(path, target)
		planned := map[int]bool{target: true}
		cur := g.edges[target].dst
		for {
			next := -1
			for _, ei := range g.out[cur] {
				if !covered[ei] && !planned[ei] {
					next = ei
					break
				}
			}
			if next < 0 {
				break
			}
			planned[next] = true
			path = append(path, next)
			cur = g.edges[next].dst
		}
		r := newRun(g)
		r.lateDone = st.paths%2 == 1 && !scriptWaits(g)
		want, blocked := expect(g.states[init])
		mm := r.settle(want, blocked, false)
		if mm == nil {
			mm = r.compare(g.states[init])
		}
		var history []string
		at := "init"
		for pi, ei := range path {
			if mm != nil {
				break
			}
			e := g.edges[ei]
			at = e.p + "@" + g.states[e.src].Pc[e.p] + " of " + opOf(g, e)
			history = append(history, e.p+"@"+g.states[e.src].Pc[e.p])
			r.parked[e.p] = ""
			r.gate[e.p] <- struct{}{}
			want, blocked = expect(g.states[e.dst])
			// goroutines the model says are blocked must not show up: a wrong wake-up is seen as an
			// unexpected arrival at a later step at the latest; the explicit window is only needed
			// where nothing follows
			mm = r.settle(want, blocked, pi == len(path)-1)
			if mm == nil {
				mm = r.compare(g.states[e.dst])
			}
			covered[ei] = true
			st.steps++
		}
		if mm != nil {
			atomic.AddInt32(&nMismatch, 1)
			// every mismatch is a divergence of the real lifecycle from the model at a named step
			pt := at
			if i := strings.Index(pt, "@"); i >= 0 {
				pt = pt[i+1:]
			}
			rep.Violation("C09|replay|step="+pt+"|"+mm.kind, map[string]interface{}{
				"script": g.script, "schedule": history, "mismatch": mm.msg})
		}
		if derr := r.drain(); derr != nil && mm == nil {
			atomic.AddInt32(&nMismatch, 1)
			rep.Violation("C09|replay|drain|deadlock", map[string]interface{}{"script": g.script, "schedule": history, "mismatch": derr.Error()})
		}
		st.paths++
	}
	for _, c := range covered {
		if c {
			st.covered++
		}
	}
}

// scriptWaits: some goroutine of the script receives from Done() itself
func scriptWaits(g *graph) bool {
	for _, sc := range g.script {
		for _, op := range sc {
			if op == "wait" {
				return true
			}
		}
	}
	return false
}

func opOf(g *graph, e edge) string {
	ip := g.states[e.src].Ip[e.p]
	sc := g.script[e.p]
	if ip >= 1 && ip <= len(sc) {
		return sc[ip-1]
	}
	return "?"
}

// sampled script assignments for the thorough tier: a generated MC module with an explicit ScriptSet
func sampleModule(rng *rand.Rand, n, nprocs, maxLen int) string {
	ops := []string{"run", "minit", "rac", "close", "wait", "close", "runr", "minitr", "racx", "minitc"}
	procs := []string{"a", "b", "c", "d"}[:nprocs]
	var sets []string
	for i := 0; i < n; i++ {
		var parts []string
		hasClose := false
		for _, p := range procs {
			l := 1 + rng.Intn(maxLen)
			var s []string
			for j := 0; j < l; j++ {
				o := ops[rng.Intn(len(ops))]
				if o == "close" {
					hasClose = true
				}
				s = append(s, `"`+o+`"`)
			}
			parts = append(parts, fmt.Sprintf(`IF p = "%s" THEN <<%s>>`, p, strings.Join(s, ", ")))
		}
		if !hasClose {
			i--
			continue
		}
		sets = append(sets, "[p \\in Procs |-> "+strings.Join(parts, " ELSE ")+" ELSE <<>>]")
	}
	return "---- MODULE MCS ----\nEXTENDS Lifecycle\nChosen == {" + strings.Join(sets, ",\n  ") + "}\n====\n"
}

func sampleCfg(nprocs int) string {
	procs := []string{`"a"`, `"b"`, `"c"`, `"d"`}[:nprocs]
	return "SPECIFICATION Spec\nCONSTANTS\n  Procs = {" + strings.Join(procs, ", ") + "}\n  AtomicWake = TRUE\n  ScriptSet <- Chosen\nVIEW View\nACTION_CONSTRAINT Emit\n" +
		"INVARIANTS CounterSane CallbacksOnce DoneAfterQuiescence NoRunDuringCb ClosedMeansIdle StepClauses NoDeadlock\nCHECK_DEADLOCK FALSE\n"
}

func main() {
	env := common.Setup()
	rep := common.NewReport(env, "model_checking")
	rep.Rule = "a case is one edge (state, goroutine step) of the TLC state graph of spec/C09/Lifecycle.tla for one script assignment, replayed on a real context with the projected state compared after the step; every edge is distinct and non-trivial (it moves one goroutine across one lifecycle access)"
	rep.Assumptions = []string{
		"TLC and the CommunityModules Json module are correct",
		"a goroutine blocked in sync.Cond.Wait / sync.Once.Do / channel receive does not reach a yield point within the settle window only if it is really blocked (a short window can miss a bug, never invent one)",
		"the yield points of build tag verif sit before the shared accesses they name (stdlib/stdlib.go)",
	}
	var err error
	codeY, err = py.Compile("y()\n", "<y>", py.ExecMode, 0, true)
	if err == nil {
		codeYR, err = py.Compile("y()\nraise ValueError('x')\n", "<yr>", py.ExecMode, 0, true)
	}
	if err != nil {
		common.Inconclusive("property=C09 compile: %v", err)
	}
	racDir = filepath.Join(env.Scratch, "rac")
	os.MkdirAll(racDir, 0o755)
	os.WriteFile(filepath.Join(racDir, "racmod.py"), []byte("x = 1\n"), 0o644)
	stdlib.VerifYield = func(c py.Context, point string) {
		if r, ok := runs.Load(c); ok {
			r.(*run).yield(point)
		}
	}

	if os.Getenv("VERIF_C09_ONLY") == "stress" { // development aid: tune the stress phase alone
		stress(env, rep, rand.New(rand.NewSource(env.Seed)))
		rep.Finish()
	}
	// 1. design check
	designs := []string{"design2q.cfg", "design2x.cfg", "design3.cfg"}
	if env.Thorough() {
		designs = []string{"design2.cfg", "design2x.cfg", "design3.cfg", "design3q.cfg"}
	}
	design := map[string]interface{}{}
	for _, cfg := range designs {
		res := env.MustTLC(common.TLCRun{Dir: "C09", Module: "MC", Config: cfg, Timeout: 25 * time.Minute})
		if len(res.Violations) > 0 || !res.Finished {
			common.Inconclusive("property=C09 design check %s did not pass: %v\n%s", cfg, res.Violations, res.Stdout)
		}
		rep.AddTLC(res)
		design[cfg] = map[string]int64{"states": res.Distinct, "generated": res.Generated}
	}
	rep.Extra["design_checks"] = design

	// 2+3. graph export and edge-coverage replay
	var graphs []*graph
	graphs = append(graphs, loadGraphs(env, rep, "replay2.cfg", nil, "MC")...)
	graphs = append(graphs, loadGraphs(env, rep, "replay2x.cfg", nil, "MC")...)
	graphs = append(graphs, loadGraphs(env, rep, "replay3.cfg", nil, "MC")...)
	rng := rand.New(rand.NewSource(env.Seed))
	n3 := env.Pick(6, 60)
	graphs = append(graphs, loadGraphs(env, rep, "MCS.cfg", map[string]string{"MCS.tla": sampleModule(rng, n3, 3, 2), "MCS.cfg": sampleCfg(3)}, "MCS")...)
	if env.Thorough() {
		graphs = append(graphs, loadGraphs(env, rep, "MCS.cfg", map[string]string{"MCS.tla": sampleModule(rng, 40, 2, 3), "MCS.cfg": sampleCfg(2)}, "MCS")...)
		graphs = append(graphs, loadGraphs(env, rep, "MCS.cfg", map[string]string{"MCS.tla": sampleModule(rng, 10, 4, 1), "MCS.cfg": sampleCfg(4)}, "MCS")...)
	}
	fmt.Printf("phase tlc done at %.1fs\n", time.Since(env.Start).Seconds())
	st := &stats{}
	{
		// graphs are independent (one fresh context per path): replay them on a small worker pool
		var wg sync.WaitGroup
		var stMu sync.Mutex
		jobs := make(chan int)
		for w := 0; w < 8; w++ {
			wg.Add(1)
			go func() {
				defer wg.Done()
				for i := range jobs {
					g := graphs[i]
					ls := &stats{}
					replayGraph(g, rep, ls)
					stMu.Lock()
					st.paths += ls.paths
					st.steps += ls.steps
					st.edges += ls.edges
					st.covered += ls.covered
					stMu.Unlock()
					if i%50 == 0 {
						rep.Sample(map[string]interface{}{"script": g.script, "states": len(g.states), "edges": len(g.edges)})
					}
				}
			}()
		}
		for i := range graphs {
			jobs <- i
		}
		close(jobs)
		wg.Wait()
	}
	rep.Evaluations = int64(st.steps)
	rep.Distinct = int64(st.covered)
	rep.Traces = int64(st.paths)
	rep.Extra["script_assignments"] = len(graphs)
	rep.Extra["graph_edges"] = st.edges
	rep.Extra["edges_covered"] = st.covered
	rep.Extra["paths"] = st.paths
	rep.Exhaustive = st.covered == st.edges && rep.NumViolationKeys() == 0
	if st.edges == 0 {
		common.Inconclusive("property=C09 no edges exported")
	}
	if atomic.LoadInt32(&nMismatch) >= maxMismatches {
		fmt.Printf("replay stopped after %d diverging paths\n", nMismatch)
		rep.Finish()
	}

	fmt.Printf("phase replay done at %.1fs: %d paths %d steps\n", time.Since(env.Start).Seconds(), st.paths, st.steps)
	// 4. free-running stress validated against LifecycleAbs
	stress(env, rep, rng)
	rep.Finish()
}
