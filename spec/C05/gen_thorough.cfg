\* every history of 5 next/send("a") calls on 2 live generators x every pair of the 14 templates
SPECIFICATION SpecCalls
CONSTANTS
  NTop = 2
  MaxOps = 5
  NB = 14
  MaxMicro = 80
  Bodies <- B
  SendVals <- SendQuick
  TopChoices <- AllTops
INVARIANTS RunComplete TypeOK DoneAbsorbing DoneStatus SendCreated LazyCreation Quiescent SuspendedAtYield Emit
CHECK_DEADLOCK FALSE
