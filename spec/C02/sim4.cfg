\* thorough: seeded sample of programs of nesting depth 3 or 4 (any outermost context) (-simulate)
SPECIFICATION SpecSim
CONSTANTS
  Depth = 4
  MinDepth = 3
  SynDepth = 2
  Outer3 <- Contexts
  MaxIn = 4
INVARIANTS TypeOK CleanupOnce HandlerFirstMatch NoneLost HandledStack EscapeIntact FinalOK RejectedNeverRuns
CHECK_DEADLOCK FALSE
