\* design check, quick tier: lengths 0..4, components None, -3..3, BIG (the generator goes to -4..4)
SPECIFICATION Spec
CONSTANTS
  MaxLen = 4
  IdxMax = 3
  MaxRhs = 3
  Wide = FALSE
  CmpLen = 3
INVARIANTS PosAgree PosInRange PosMaximal GetAgree SimpleIsSubSeq DelAgree SetAgree SelfAssign RangeAgree OrderLaws
CHECK_DEADLOCK FALSE
