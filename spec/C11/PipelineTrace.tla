---------------------------- MODULE PipelineTrace ----------------------------
(* C11 trace validation: every distinct outcome event the harness observed on the real        *)
(* py.Compile (events.ndjson, one event per line: [mode, kind, cls, bases, file, line,        *)
(* offset]) must be a behaviour of Pipeline: some run of the stage machine started in the     *)
(* event's mode ends in a matching outcome.  One initial state per event,   *)
(* the acceptance test runs in a Next step (so the workers share it); the verdict of every    *)
(* line is printed for the harness.                                                           *)
EXTENDS Pipeline, Json
Events == ndJsonDeserialize("events.ndjson")
VARIABLES l, v
TInit == l \in 1..Len(Events) /\ v = "todo" /\ st = Start(Events[l].mode)
TNext == /\ v = "todo"
         /\ v' = IF Accepts(Events[l]) THEN "accepted" ELSE "rejected"
         /\ UNCHANGED <<l, st>>
TSpec == TInit /\ [][TNext]_<<l, v, st>>
Verdict == v # "todo" => PrintT(ToJson([line |-> l, verdict |-> v]))
=============================================================================
