//go:build verif

package main

import (
	"encoding/json"
	"fmt"
	"regexp"
	"strconv"
	"strings"
	"sync"
	"sync/atomic"
	"time"

	"gpverif/common"
	"gpverif/pyrun"
)

// ---- records printed by TLC (spec/C05/PyGen.tla, MCGen.tla) ----

type val struct {
	T string `json:"t"`
	I int    `json:"i"`
	S string `json:"s"`
	L []val  `json:"l"` // items of a tuple / list
}
type outcome struct {
	K string `json:"k"`
	V val    `json:"v"`
	E string `json:"e"`
}
type event struct {
	K string `json:"k"`
	V val    `json:"v"`
}
type callRec struct {
	G    int     `json:"g"`
	Sent val     `json:"sent"`
	Pre  string  `json:"pre"`
	Out  outcome `json:"out"`
	Log  []event `json:"log"`
}
type behRec struct {
	Rec  string    `json:"rec"`
	Top  []int     `json:"top"`
	Hist []callRec `json:"hist"`
}
type stmt struct {
	K    string `json:"k"`
	N    int    `json:"n"`
	V    int    `json:"v"`
	B    int    `json:"b"`
	Val  val    `json:"val"`  // retv: the returned value
	Then string `json:"then"` // yf: "", "ret", "unpack"
	Body []stmt `json:"body"`
	Fin  []stmt `json:"fin"`
}
type bodiesRec struct {
	Rec    string   `json:"rec"`
	Names  []string `json:"names"`
	Bodies [][]stmt `json:"bodies"`
	NB     int      `json:"nb"`
}

// ---- rendering (dumb templates: one Python line per statement kind) ----

// pyVal is the text the driver prints for a value: tuples and lists are shown by the scaffolding function show()
// as ['T', items...] resp. ['L', items...] (type by isinstance, then the items; a tuple is never printed as such)
func pyVal(v val) string {
	switch v.T {
	case "int":
		return strconv.Itoa(v.I)
	case "str":
		return "'" + v.S + "'"
	case "tuple", "list":
		parts := []string{"'T'"}
		if v.T == "list" {
			parts[0] = "'L'"
		}
		for _, x := range v.L {
			parts = append(parts, pyVal(x))
		}
		return "[" + strings.Join(parts, ", ") + "]"
	}
	return "None"
}

// pyLiteral is the Python source text of a value (used in `return <value>`)
func pyLiteral(v val) string {
	switch v.T {
	case "int":
		return strconv.Itoa(v.I)
	case "str":
		return "'" + v.S + "'"
	case "tuple", "list":
		parts := make([]string, len(v.L))
		for i, x := range v.L {
			parts[i] = pyLiteral(x)
		}
		if v.T == "list" {
			return "[" + strings.Join(parts, ", ") + "]"
		}
		if len(parts) == 1 {
			return "(" + parts[0] + ",)"
		}
		return "(" + strings.Join(parts, ", ") + ")"
	}
	return "None"
}

func pyOutcome(o outcome) string {
	switch o.K {
	case "yield":
		return "['yield', " + pyVal(o.V) + "]"
	case "stop":
		return "['stop', " + pyVal(o.V) + "]"
	case "exc":
		return "['exc', '" + o.E + "']"
	}
	return "['" + o.K + "']"
}

func outcomeClass(o outcome) string {
	if o.K == "exc" {
		return "exc:" + o.E
	}
	return o.K
}

func pyLog(l []event) string {
	parts := make([]string, len(l))
	for i, e := range l {
		parts[i] = "['" + e.K + "', " + pyVal(e.V) + "]"
	}
	return "[" + strings.Join(parts, ", ") + "]"
}

func renderStmts(ss []stmt, ind string, depth int, out *[]string) {
	for _, s := range ss {
		switch s.K {
		case "log":
			*out = append(*out, fmt.Sprintf("%sLOG.append(['l', %d])", ind, s.N))
		case "yield":
			*out = append(*out, fmt.Sprintf("%syield %d", ind, s.V))
		case "recv":
			*out = append(*out, fmt.Sprintf("%sx = yield %d", ind, s.V), ind+"LOG.append(['r', x])")
		case "inc":
			*out = append(*out, ind+"n = n + 1")
		case "yloc":
			*out = append(*out, ind+"yield n")
		case "loop":
			*out = append(*out, fmt.Sprintf("%sfor _i%d in range(%d):", ind, depth, s.N))
			renderStmts(s.Body, ind+"    ", depth+1, out)
		case "tryf":
			*out = append(*out, ind+"try:")
			renderStmts(s.Body, ind+"    ", depth+1, out)
			*out = append(*out, ind+"finally:")
			renderStmts(s.Fin, ind+"    ", depth+1, out)
		case "ret":
			*out = append(*out, fmt.Sprintf("%sreturn %d", ind, s.V))
		case "raise":
			*out = append(*out, ind+"raise KeyError('boom')")
		case "retv":
			*out = append(*out, ind+"return "+pyLiteral(s.Val))
		case "rstop":
			*out = append(*out, fmt.Sprintf("%sraise StopIteration(%d)", ind, s.V))
		case "yf":
			switch s.Then {
			case "unpack":
				*out = append(*out, fmt.Sprintf("%sq, r = yield from g%d()", ind, s.B), ind+"LOG.append(['un', show([q, r])])")
			case "ret":
				*out = append(*out, fmt.Sprintf("%sr = yield from g%d()", ind, s.B), ind+"LOG.append(['yf', show(r)])", ind+"return r")
			default:
				*out = append(*out, fmt.Sprintf("%sr = yield from g%d()", ind, s.B), ind+"LOG.append(['yf', show(r)])")
			}
		default:
			common.Inconclusive("property=C05 statement kind %q of the specification has no rendering", s.K)
		}
	}
}

const genDriver = `
def show(v):
    if isinstance(v, tuple):
        return ['T'] + [show(x) for x in v]
    if isinstance(v, list):
        return ['L'] + [show(x) for x in v]
    return v
def call(g, v):
    del LOG[:]
    try:
        if v is None:
            y = next(g)
        else:
            y = g.send(v)
        o = ['yield', y]
    except StopIteration as e:
        o = ['stop', show(e.value)]
    except TypeError:
        o = ['exc', 'TypeError']
    except ValueError:
        o = ['exc', 'ValueError']
    except KeyError:
        o = ['exc', 'KeyError']
    print(o)
    print(LOG)
def run(top, ops):
    gs = [None]
    for t in top:
        gs.append(G[t]())
    for op in ops:
        call(gs[op[0]], op[1])
`

func genPrelude(b *bodiesRec) string {
	lines := []string{"LOG = []"}
	names := []string{"None"}
	for i, ss := range b.Bodies {
		lines = append(lines, fmt.Sprintf("def g%d():", i+1), "    n = 0")
		renderStmts(ss, "    ", 0, &lines)
		lines = append(lines, "    if False:", "        yield 0")
		names = append(names, fmt.Sprintf("g%d", i+1))
	}
	lines = append(lines, "G = ["+strings.Join(names, ", ")+"]")
	return strings.Join(lines, "\n") + "\n" + genDriver
}

func genProgram(b *behRec) string {
	tops := make([]string, len(b.Top))
	for i, t := range b.Top {
		tops[i] = strconv.Itoa(t)
	}
	ops := make([]string, len(b.Hist))
	for i, c := range b.Hist {
		ops[i] = fmt.Sprintf("[%d, %s]", c.G, pyVal(c.Sent))
	}
	return "run([" + strings.Join(tops, ", ") + "], [" + strings.Join(ops, ", ") + "])\n"
}

// ---- workers ----

type pyWorker struct {
	prelude string
	ctx     *pyrun.Ctx
	n       int
}

func newPyWorker(prelude string) *pyWorker {
	w := &pyWorker{prelude: prelude}
	w.reset()
	return w
}

func (w *pyWorker) reset() {
	w.ctx = pyrun.New()
	r := w.ctx.Exec(w.prelude, 60*time.Second)
	if r.Outcome() != "ok" {
		common.Inconclusive("property=C05 the scaffolding prelude does not run: %s %s %s", r.Outcome(), r.Msg, r.Panic)
	}
	w.n = 0
}

func splitLines(s string) []string {
	s = strings.TrimRight(s, "\n")
	if s == "" {
		return nil
	}
	return strings.Split(s, "\n")
}

var reObsKind = regexp.MustCompile(`^\['(yield|stop|exc)'(?:, (.*))?\]$`)
var reStable = regexp.MustCompile(`^[-0-9A-Za-z'()\[\], ]{0,24}$`)

// observed outcome class of one driver line: yield | stop | exc:<Class> | garbled
func obsClass(line string) (class, value string) {
	m := reObsKind.FindStringSubmatch(line)
	if m == nil {
		return "garbled", ""
	}
	if m[1] == "exc" {
		return "exc:" + strings.Trim(m[2], "'"), ""
	}
	return m[1], m[2]
}

type genStats struct {
	behaviours, distinct, distinctNontrivial, calls, divergent int64
	byPreOut, byBody                                           *counter
	runs                                                       []map[string]interface{}
}

func opName(c *callRec) string {
	if c.Sent.T == "none" {
		return "next"
	}
	return "send"
}

// compare one replayed behaviour with what the specification demands after each call
func (gs *genStats) check(rep *common.Report, names []string, prelude string, b *behRec, r *pyrun.Result) {
	obs := splitLines(r.Stdout)
	dead := map[int]bool{}
	report := func(key string, i int, what string) {
		atomic.AddInt64(&gs.divergent, 1)
		var exp []string
		for _, c := range b.Hist {
			exp = append(exp, pyOutcome(c.Out), pyLog(c.Log))
		}
		rep.Violation(key, map[string]interface{}{"part": "PyGen", "templates": topNames(names, b.Top), "call_index": i, "what": what,
			"prelude": prelude, "program": genProgram(b), "expected": exp, "observed": obs, "run_outcome": r.Outcome(), "panic_site": r.PanicSite})
	}
	for i := range b.Hist {
		c := &b.Hist[i]
		if 2*i+1 >= len(obs) && dead[c.G] {
			// the driver program ended inside a call on an instance that had already diverged: a consequence
			// of that divergence (the state of that generator is unknown), nothing further is observable
			return
		}
		if dead[c.G] {
			continue
		}
		body := names[b.Top[c.G-1]-1]
		where := fmt.Sprintf("body=%s,pre=%s", body, c.Pre)
		act := "C05|PyGen.Start(" + opName(c) + ")|" + where + "|"
		if 2*i+1 >= len(obs) {
			// the driver did not get this far: crash, panic or timeout inside the call
			kind := r.Outcome()
			if r.Panic != "" {
				kind = "panic@" + r.PanicSite
			}
			report(act+"driver:"+kind, i, "the driver program ended inside this call")
			return
		}
		oLine, lLine := obs[2*i], obs[2*i+1]
		expO, expL := pyOutcome(c.Out), pyLog(c.Log)
		if oLine != expO {
			oc, ov := obsClass(oLine)
			ec := outcomeClass(c.Out)
			switch {
			case oc != ec:
				report(act+"outcome:exp="+ec+"/obs="+oc, i, "outcome class")
				dead[c.G] = true
				continue
			case ec == "stop":
				// the generator is exhausted either way; only the value carried by StopIteration differs
				shown := "other"
				if reStable.MatchString(ov) && !strings.Contains(ov, "0x") {
					shown = ov
				}
				report("C05|PyGen.End(stop)|value="+c.Out.V.T+"|observed="+shown, i, "value carried by StopIteration")
			default:
				report(act+"value:"+ec, i, "yielded value")
				dead[c.G] = true
				continue
			}
		}
		if lLine != expL {
			report(act+logDivergence(c.Log, lLine), i, "events recorded by the bodies during this call")
			dead[c.G] = true
		}
	}
}

// agrees reports whether the run printed exactly what the specification demands
func agrees(b *behRec, r *pyrun.Result) bool {
	obs := splitLines(r.Stdout)
	if r.Outcome() != "ok" || len(obs) != 2*len(b.Hist) {
		return false
	}
	for i := range b.Hist {
		if obs[2*i] != pyOutcome(b.Hist[i].Out) || obs[2*i+1] != pyLog(b.Hist[i].Log) {
			return false
		}
	}
	return true
}

type obsEvent struct{ k, v string }

// parseLog splits a printed event log [['k', v], ...] into its events
func parseLog(line string) ([]obsEvent, bool) {
	if len(line) < 2 || line[0] != '[' || line[len(line)-1] != ']' {
		return nil, false
	}
	inner := line[1 : len(line)-1]
	if inner == "" {
		return nil, true
	}
	if len(inner) < 2 || inner[0] != '[' || inner[len(inner)-1] != ']' {
		return nil, false
	}
	var evs []obsEvent
	for _, part := range strings.Split(inner[1:len(inner)-1], "], [") {
		if len(part) < 2 || part[0] != '\'' {
			return nil, false
		}
		j := strings.Index(part[1:], "', ")
		if j < 0 {
			return nil, false
		}
		evs = append(evs, obsEvent{part[1 : 1+j], part[1+j+3:]})
	}
	return evs, true
}

// logDivergence names the first difference between the demanded and the observed events of one call:
// the kind of event (l = log statement, r = value received by `x = yield`, yf = value of `yield from`) and
// whether it is missing, extra, of another kind or carries another value
func logDivergence(exp []event, obsLine string) string {
	obs, ok := parseLog(obsLine)
	if !ok {
		return "log:garbled"
	}
	for i := range exp {
		switch {
		case i >= len(obs):
			return "log:missing-" + exp[i].K
		case obs[i].k != exp[i].K:
			return "log:exp=" + exp[i].K + "/obs=" + obs[i].k
		case obs[i].v != pyVal(exp[i].V):
			return "log:" + exp[i].K + "-value"
		}
	}
	if len(obs) > len(exp) {
		return "log:extra-" + obs[len(exp)].k
	}
	return "log:garbled"
}

func topNames(names []string, top []int) []string {
	r := make([]string, len(top))
	for i, t := range top {
		r[i] = names[t-1]
	}
	return r
}

type genRun struct {
	name, cfg string
	simTotal  int // > 0: -simulate, this many traces in total
	depth     int
	emits     bool
	tlcW, pyW int // TLC workers, replay workers
}

// The TLC runs of the generator half, one after the other (the machine is shared: never two TLC calls of one
// check at a time); the replay of a run's records goes on while TLC is still producing them.
func runGen(env *common.Env, rep *common.Report) *genStats {
	gs := &genStats{byPreOut: newCounter(), byBody: newCounter()}
	tw, pw := share(env, 1, 2), share(env, 2, 2)
	design := genRun{name: "design check on the small-step specification: yield-from transparency in lock-step + every template alone", cfg: "gen_design.cfg", tlcW: tw}
	if env.Thorough() {
		design.cfg = "gen_design_t.cfg"
	}
	runs := []genRun{design}
	if env.Thorough() {
		runs = append(runs,
			genRun{name: "exhaustive 2 instances x 4 calls x 14 templates", cfg: "gen_thorough.cfg", emits: true, tlcW: tw, pyW: pw},
			genRun{name: "sampled 3 instances x 6 calls", cfg: "gen_sim3.cfg", simTotal: 20000, depth: 20, emits: true, tlcW: tw, pyW: pw},
			genRun{name: "sampled 2 instances x 6 calls", cfg: "gen_sim2.cfg", simTotal: 10000, depth: 20, emits: true, tlcW: tw, pyW: pw})
	} else {
		runs = append(runs,
			genRun{name: "exhaustive 2 instances x 4 calls x 12 templates", cfg: "gen_quick.cfg", emits: true, tlcW: tw, pyW: pw},
			genRun{name: "sampled 3 instances x 6 calls", cfg: "gen_sim3.cfg", simTotal: 3000, depth: 20, emits: true, tlcW: tw, pyW: pw})
	}
	seen := map[string]bool{}
	var mu sync.Mutex // guards seen, gs counters, gs.runs
	for _, gr := range runs {
		gs.one(env, rep, gr, seen, &mu)
	}
	return gs
}

func (gs *genStats) one(env *common.Env, rep *common.Report, gr genRun, seen map[string]bool, mu *sync.Mutex) {
	simulate := ""
	if gr.simTotal > 0 {
		// -simulate num=N generates N traces per TLC worker: scale so that the sample size does not depend on the machine
		simulate = "num=" + strconv.Itoa((gr.simTotal+gr.tlcW-1)/gr.tlcW)
	}
	var hdr *bodiesRec
	var prelude string
	jobs := make(chan *behRec, 8192)
	var wg sync.WaitGroup
	var nBeh int64
	start := func() {
		for w := 0; w < gr.pyW; w++ {
			wg.Add(1)
			go func() {
				defer wg.Done()
				pw := newPyWorker(prelude)
				for b := range jobs {
					if pw.n >= 4000 { // fresh context now and then: bounded memory, no state carried far
						pw.ctx.Close()
						pw.reset()
					}
					pw.n++
					prog := genProgram(b)
					r := pw.ctx.Exec(prog, execTimeout)
					if !agrees(b, r) {
						// a candidate divergence is re-run once in a fresh context before it is believed
						pw.reset()
						r = pw.ctx.Exec(prog, execTimeout)
						if r.TimedOut {
							pw.reset()
						}
					}
					gs.check(rep, hdr.Names, prelude, b, r)
					if atomic.AddInt64(&nBeh, 1)%9973 == 1 {
						rep.Sample(map[string]interface{}{"part": "PyGen", "templates": topNames(hdr.Names, b.Top), "program": strings.TrimSpace(prog),
							"expected_after_each_call": expectedLines(b)})
					}
				}
			}()
		}
	}
	res := env.MustTLC(common.TLCRun{Dir: "C05", Module: "MCGen", Config: gr.cfg, Simulate: simulate, Depth: gr.depth, Seed: env.Seed,
		Workers: gr.tlcW, Timeout: tlcTimeout(env), OnLine: func(rec []byte) {
			if !gr.emits {
				return
			}
			if hdr == nil {
				h := &bodiesRec{}
				if err := json.Unmarshal(rec, h); err != nil || h.Rec != "bodies" {
					common.Inconclusive("property=C05 expected the bodies record first, got %.200s", rec)
				}
				hdr = h
				prelude = genPrelude(h)
				start()
				return
			}
			b := &behRec{}
			if err := json.Unmarshal(rec, b); err != nil || b.Rec != "beh" {
				common.Inconclusive("property=C05 bad behaviour record %.200s", rec)
			}
			prog := genProgram(b)
			mu.Lock()
			dup := seen[prog]
			seen[prog] = true
			gs.behaviours++
			if !dup {
				gs.distinct++
				nontrivial := false
				for i := range b.Hist {
					c := &b.Hist[i]
					gs.calls++
					gs.byPreOut.add(c.Pre+"/"+outcomeClass(c.Out), 1)
					gs.byBody.add(hdr.Names[b.Top[c.G-1]-1], 1)
					if c.Pre == "suspended" || (c.Pre == "created" && c.Sent.T == "none") {
						nontrivial = true
					}
				}
				if nontrivial {
					gs.distinctNontrivial++
				}
			}
			mu.Unlock()
			if dup {
				return // a simulated history that was already replayed
			}
			jobs <- b
		}})
	close(jobs)
	wg.Wait()
	if len(res.Violations) > 0 || !res.Finished {
		common.Inconclusive("property=C05 the specification itself fails (spec/C05 MCGen %s): %v\n%s", gr.cfg, res.Violations, res.Stdout)
	}
	if gr.emits && (hdr == nil || atomic.LoadInt64(&nBeh) == 0) {
		common.Inconclusive("property=C05 TLC emitted no behaviour for %s", gr.cfg)
	}
	rep.AddTLC(res)
	mu.Lock()
	gs.runs = append(gs.runs, map[string]interface{}{"run": gr.name, "config": gr.cfg, "simulate": simulate, "states": res.Distinct,
		"generated": res.Generated, "behaviours_replayed": atomic.LoadInt64(&nBeh), "tlc_wall_s": res.Wall.Seconds()})
	mu.Unlock()
	fmt.Printf("gen %-40s states=%d behaviours=%d at %.1fs\n", gr.cfg, res.Distinct, atomic.LoadInt64(&nBeh), time.Since(env.Start).Seconds())
}

func expectedLines(b *behRec) []string {
	var exp []string
	for _, c := range b.Hist {
		exp = append(exp, pyOutcome(c.Out)+" "+pyLog(c.Log))
	}
	return exp
}
