SPECIFICATION Spec
CONSTANTS
  MaxN = 2
  MaxBases = 3
  OpCounts = {0}
  Exhaustive = TRUE
INVARIANTS FrameOk MrosOk
CHECK_DEADLOCK FALSE
