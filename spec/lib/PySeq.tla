------------------------------- MODULE PySeq -------------------------------
(* Python's sequence model (Python 3.4 Library Reference 4.6 "Sequence Types", Language          *)
(* Reference 3.2 / 6.3.2 / 6.3.3 / 7.2 / 7.5) as pure TLA+ operators over Sequences of values.    *)
(*                                                                                                *)
(* Two formulations stand side by side:                                                           *)
(*   *D  declarative: "the slice s[i:j:k] is the items with index x = i + n*k ... never including *)
(*       j", written as a filter over the positions 0..len-1 after defaulting and clamping;       *)
(*   *A  algorithmic: the clamp-and-count arithmetic of PySlice_GetIndicesEx (py/slice.go),       *)
(*       list_ass_subscript (py/list.go) and compute_slice of range (py/range.go).                *)
(* spec/C13/PySeqMC checks *A = *D on the whole bounded domain; the generators only use *D.       *)
(*                                                                                                *)
(* A slice component is an integer or NoneV (omitted).  BigPos / BigNeg are the symbolic          *)
(* "further out of range than any length" components: every operator below only relies on         *)
(* BigNeg + n < -1 and BigPos > n for every length n it is applied to (assumed: n < 500).         *)
(* Positions are 0-based like Python's; TLA+ sequences are 1-based, hence the +1 on access.       *)
EXTENDS Integers, Sequences, FiniteSets

NoneV  == 100000
BigPos == 1000
BigNeg == -1000
IsBig(x) == x = BigPos \/ x = BigNeg

SqMin(x, y) == IF x < y THEN x ELSE y
SqMax(x, y) == IF x < y THEN y ELSE x
SqRev(s) == [i \in 1..Len(s) |-> s[Len(s) + 1 - i]]
\* the elements of a finite set of integers in ascending order
SqAsc(S) == [j \in 1..Cardinality(S) |-> CHOOSE i \in S : Cardinality({x \in S : x < i}) = j - 1]
SqSet(s) == {s[i] : i \in 1..Len(s)}

-----------------------------------------------------------------------------
(* Declarative slice positions                                                                    *)
StepOf(st) == IF st = NoneV THEN 1 ELSE st
\* a bound given relative to the end is taken relative to the end once; what is still outside is
\* reduced to the nearest "end" value, which depends on the direction of travel
NormUp(x, n) == IF x < 0 THEN (IF x + n < 0 THEN 0 ELSE x + n) ELSE (IF x > n THEN n ELSE x)            \* step > 0: into 0..n
NormDn(x, n) == IF x < 0 THEN (IF x + n < -1 THEN -1 ELSE x + n) ELSE (IF x > n - 1 THEN n - 1 ELSE x)  \* step < 0: into -1..n-1
FirstUp(n, a) == IF a = NoneV THEN 0 ELSE NormUp(a, n)
BoundUp(n, b) == IF b = NoneV THEN n ELSE NormUp(b, n)
FirstDn(n, a) == IF a = NoneV THEN n - 1 ELSE NormDn(a, n)
BoundDn(n, b) == IF b = NoneV THEN -1 ELSE NormDn(b, n)
SelUp(n, a, b, k) == { i \in 0..(n - 1) : i >= FirstUp(n, a) /\ i < BoundUp(n, b) /\ (i - FirstUp(n, a)) % k = 0 }
SelDn(n, a, b, k) == { i \in 0..(n - 1) : i <= FirstDn(n, a) /\ i > BoundDn(n, b) /\ (FirstDn(n, a) - i) % k = 0 }
\* the selected positions in visiting order; st # 0
PositionsD(n, a, b, st) ==
  LET k == StepOf(st) IN IF k > 0 THEN SqAsc(SelUp(n, a, b, k)) ELSE SqRev(SqAsc(SelDn(n, a, b, -k)))

\* a slice component is acceptable if it is None or an integer; step 0 is a ValueError
GetSliceD(s, a, b, st) == LET P == PositionsD(Len(s), a, b, st) IN [j \in 1..Len(P) |-> s[P[j] + 1]]

\* plain slices (step omitted or 1) are replaced as a whole: "s[i:j] = t: slice of s from i to j is
\* replaced by the contents of the iterable t"; an empty slice i >= j inserts at i
IsSimple(st) == st = NoneV \/ st = 1
SpliceLo(n, a) == FirstUp(n, a)
SpliceHi(n, a, b) == SqMax(FirstUp(n, a), BoundUp(n, b))
SpliceD(s, a, b, v) == SubSeq(s, 1, SpliceLo(Len(s), a)) \o v \o SubSeq(s, SpliceHi(Len(s), a, b) + 1, Len(s))
\* extended slices: "the elements of s[i:j:k] are replaced by those of t; t must have the same length"
SetSliceOk(s, a, b, st, v) == IsSimple(st) \/ Len(v) = Len(PositionsD(Len(s), a, b, st))
SetSliceD(s, a, b, st, v) ==
  IF IsSimple(st) THEN SpliceD(s, a, b, v)
  ELSE LET P == PositionsD(Len(s), a, b, st)
       IN [i \in 1..Len(s) |-> IF \E j \in 1..Len(P) : P[j] + 1 = i THEN v[CHOOSE j \in 1..Len(P) : P[j] + 1 = i] ELSE s[i]]
\* "del s[i:j:k] removes the elements of s[i:j:k] from the list"
DelSliceD(s, a, b, st) ==
  LET P == PositionsD(Len(s), a, b, st)
      keep == SqAsc({ i \in 1..Len(s) : ~ \E j \in 1..Len(P) : P[j] + 1 = i })
  IN [j \in 1..Len(keep) |-> s[keep[j]]]

-----------------------------------------------------------------------------
(* Indexing: "if i is negative the index is relative to the end: len(s) + i is substituted"      *)
NormIndex(i, n) == IF i < 0 THEN i + n ELSE i
IndexOk(i, n) == NormIndex(i, n) >= 0 /\ NormIndex(i, n) < n
GetItemD(s, i) == s[NormIndex(i, Len(s)) + 1]
SetItemD(s, i, v) == [s EXCEPT ![NormIndex(i, Len(s)) + 1] = v]
DelItemD(s, i) == LET k == NormIndex(i, Len(s)) + 1 IN SubSeq(s, 1, k - 1) \o SubSeq(s, k + 1, Len(s))

-----------------------------------------------------------------------------
(* Concatenation, repetition, membership, comparison                                             *)
ConcatD(s, t) == s \o t
\* "values of n less than 0 are treated as 0"
RepeatD(s, k) == IF k <= 0 \/ Len(s) = 0 THEN <<>> ELSE [i \in 1..(k * Len(s)) |-> s[((i - 1) % Len(s)) + 1]]
ElemIn(s, v) == \E i \in 1..Len(s) : s[i] = v
\* str and bytes: "x in s" is a subsequence (substring) test
SubseqIn(s, v) == \E i \in 0..(Len(s) - Len(v)) : \A j \in 1..Len(v) : s[i + j] = v[j]
SeqEq(s, t) == Len(s) = Len(t) /\ \A i \in 1..Len(s) : s[i] = t[i]
\* lexicographic: the first differing item decides; a proper prefix is smaller
LexLt(s, t) == \E k \in 0..SqMin(Len(s), Len(t)) :
                 /\ \A i \in 1..k : s[i] = t[i]
                 /\ \/ (k = Len(s) /\ k < Len(t))
                    \/ (k < Len(s) /\ k < Len(t) /\ s[k + 1] < t[k + 1])
LexLe(s, t) == LexLt(s, t) \/ SeqEq(s, t)

-----------------------------------------------------------------------------
(* range objects: "r[i] = start + step*i where i >= 0 and r[i] < stop" (step > 0), "> stop" (< 0) *)
RangeCountD(start, stop, step) ==
  LET span == IF step > 0 THEN stop - start ELSE start - stop
  IN IF span <= 0 THEN 0 ELSE Cardinality({ i \in 0..(span - 1) : IF step > 0 THEN start + step * i < stop ELSE start + step * i > stop })
RangeElemsD(start, stop, step) == [i \in 1..RangeCountD(start, stop, step) |-> start + step * (i - 1)]

-----------------------------------------------------------------------------
(* Algorithmic formulations, shaped like the code                                                *)
\* PySlice_GetIndicesEx as ported in py/slice.go (C division truncates; both quotients are of
\* non-negative numbers so floor division is the same)
GetIndices(n, a, b, st) ==
  LET step == StepOf(st)
      defstart == IF step < 0 THEN n - 1 ELSE 0
      defstop == IF step < 0 THEN -1 ELSE n
      clampS(x) == LET y == IF x < 0 THEN x + n ELSE x
                       z == IF y < 0 THEN (IF step < 0 THEN -1 ELSE 0) ELSE y
                   IN IF z >= n THEN (IF step < 0 THEN n - 1 ELSE n) ELSE z
      start == IF a = NoneV THEN defstart ELSE clampS(a)
      stop == IF b = NoneV THEN defstop ELSE clampS(b)
      len == IF (step < 0 /\ stop >= start) \/ (step > 0 /\ start >= stop) THEN 0
             ELSE IF step < 0 THEN ((start - stop - 1) \div (-step)) + 1
             ELSE ((stop - start - 1) \div step) + 1
  IN [start |-> start, stop |-> stop, step |-> step, len |-> len]
PositionsA(n, a, b, st) == LET g == GetIndices(n, a, b, st) IN [j \in 1..g.len |-> g.start + (j - 1) * g.step]
GetSliceA(s, a, b, st) == LET P == PositionsA(Len(s), a, b, st) IN [j \in 1..Len(P) |-> s[P[j] + 1]]

\* list_ass_subscript / list_ass_slice of CPython's listobject.c
SetSliceA(s, a, b, st, v) ==
  LET g == GetIndices(Len(s), a, b, st)
  IN IF g.step = 1
     THEN LET stop == IF g.start > g.stop THEN g.start ELSE g.stop
          IN SubSeq(s, 1, g.start) \o v \o SubSeq(s, stop + 1, Len(s))
     ELSE [i \in 1..Len(s) |-> IF \E j \in 0..(g.len - 1) : g.start + j * g.step + 1 = i
                                THEN v[(CHOOSE j \in 0..(g.len - 1) : g.start + j * g.step + 1 = i) + 1] ELSE s[i]]
DelSliceA(s, a, b, st) ==
  LET g == GetIndices(Len(s), a, b, st)
  IN IF g.step = 1
     THEN LET stop == IF g.start > g.stop THEN g.start ELSE g.stop
          IN SubSeq(s, 1, g.start) \o SubSeq(s, stop + 1, Len(s))
     ELSE IF g.len = 0 THEN s
     ELSE LET \* a negative step is turned round: same positions, ascending
              start == IF g.step < 0 THEN g.start + g.step * (g.len - 1) ELSE g.start
              step == IF g.step < 0 THEN -g.step ELSE g.step
              gone == { start + j * step + 1 : j \in 0..(g.len - 1) }
              keep == SqAsc((1..Len(s)) \ gone)
          IN [j \in 1..Len(keep) |-> s[keep[j]]]

\* compute_range_length / compute_slice of CPython's rangeobject.c
RangeCountA(start, stop, step) ==
  LET lo == IF step > 0 THEN start ELSE stop
      hi == IF step > 0 THEN stop ELSE start
      k == IF step > 0 THEN step ELSE -step
  IN IF lo >= hi THEN 0 ELSE ((hi - lo - 1) \div k) + 1
RangeSliceA(start, stop, step, a, b, st) ==
  LET g == GetIndices(RangeCountA(start, stop, step), a, b, st)
  IN [start |-> start + g.start * step, stop |-> start + g.stop * step, step |-> step * g.step]
=============================================================================
