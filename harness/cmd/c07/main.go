//go:build verif

// C07: integer arithmetic is exact and independent of the internal representation.
//
//  1. Design check: TLC checks the algebraic laws of spec/lib/BigNum.tla + spec/C07/PyInt.tla on all
//     ordered pairs of a boundary lattice (spec/C07/PyIntLaws.tla).
//  2. Binding (trace validation): this program performs every integer operator of the real gpython
//     code on all pairs (triples for pow) of a boundary lattice and on seeded random 1..192-bit
//     operands, with each operand forced into each representation (py.Int / *py.BigInt) through the
//     Go API, through compiled expressions and through compiled programs with alternative literal
//     spellings.  Every operation becomes one line (op, operands, representations, observation) of a
//     trace; TLC validates each line against PyInt!Expected (spec/C07/PyIntTrace.tla) and exports
//     the rejected lines with the finding key computed from the specification's case partition.
//
// No expected value lives here: this file renders cases, runs the real code, transports numbers
// (base-2^15 digit sequences, TLC integers being 32-bit) and relays TLC's verdicts.
package main

import (
	"bytes"
	"encoding/json"
	"fmt"
	"math/big"
	"math/rand"
	"os"
	"sort"
	"strconv"
	"strings"
	"sync"
	"time"

	"gpverif/common"
	"gpverif/pyrun"

	"github.com/go-python/gpython/py"
)

// ---------------------------------------------------------------------------------------
// transport

type Z struct {
	S int   `json:"s"`
	M []int `json:"m"`
}

var big15 = big.NewInt(32768)

func encZ(v *big.Int) *Z {
	z := &Z{S: 1, M: []int{}}
	if v.Sign() < 0 {
		z.S = -1
	}
	m := new(big.Int).Abs(v)
	r := new(big.Int)
	for m.Sign() != 0 {
		m.QuoRem(m, big15, r)
		z.M = append(z.M, int(r.Int64()))
	}
	return z
}

func decZ(z *Z) *big.Int {
	v := new(big.Int)
	if z == nil {
		return v
	}
	for i := len(z.M) - 1; i >= 0; i-- {
		v.Mul(v, big15)
		v.Add(v, big.NewInt(int64(z.M[i])))
	}
	if z.S < 0 {
		v.Neg(v)
	}
	return v
}

func codes(s string) *[]int {
	c := make([]int, 0, len(s))
	for _, r := range s {
		c = append(c, int(r))
	}
	return &c
}

func uncodes(c []int) string {
	var b strings.Builder
	for _, r := range c {
		b.WriteRune(rune(r))
	}
	return b.String()
}

// Obs is what was observed; only the fields of its kind are transported.
type Obs struct {
	K     string   `json:"k"` // int | pair | bool | float | text | exc | panic | timeout
	V     *Z       `json:"v,omitempty"`
	RV    string   `json:"rv,omitempty"` // "w" (py.Int) | "B" (*py.BigInt) | "?" (read from program output)
	V2    *Z       `json:"v2,omitempty"`
	RV2   string   `json:"rv2,omitempty"`
	T     *int     `json:"t,omitempty"`
	Txt   *[]int   `json:"txt,omitempty"`
	Bases []string `json:"bases,omitempty"`
	note  string
	after *After // the operands re-read after the operation (not part of the observation record itself)
}

// After is what the operand objects hold after the operation: ints are immutable, so every operator must leave
// value and representation of its operands alone (math/big receivers make in-place updates an easy mistake).
type After struct {
	N  int         // operands re-read
	V  [3]*big.Int // values afterwards (nil: could not be read back as an int)
	R  [3]string   // representation afterwards: "w" | "B" | "?" (read from program output)
	R0 [3]string   // representation observed before the operation (compiled-expression route), "" otherwise
}

// Line is one line of the trace.
type Line struct {
	Op   string `json:"op"`
	Form string `json:"form,omitempty"` // "i": in-place form of a binary operator
	A    *Z     `json:"a,omitempty"`
	RA   string `json:"ra,omitempty"` // "w" | "B" forced through the Go API; "s" written in source text
	B    *Z     `json:"b,omitempty"`
	RB   string `json:"rb,omitempty"`
	C    *Z     `json:"c,omitempty"`
	RC   string `json:"rc,omitempty"`
	Base *int   `json:"base,omitempty"`
	Txt  *[]int `json:"txt,omitempty"`
	O    Obs    `json:"o"`
	// operands after the operation (value, representation) and, where observed, their representation before it
	AA  *Z     `json:"aa,omitempty"`
	RAA string `json:"raa,omitempty"`
	RA0 string `json:"ra0,omitempty"`
	AB  *Z     `json:"ab,omitempty"`
	RAB string `json:"rab,omitempty"`
	RB0 string `json:"rb0,omitempty"`
	AC  *Z     `json:"ac,omitempty"`
	RAC string `json:"rac,omitempty"`
	RC0 string `json:"rc0,omitempty"`
}

// Case is one operation to perform.
type Case struct {
	Op      string `json:"op"`
	Form    string `json:"form,omitempty"`
	Via     string `json:"via"` // api | eval | src
	A       string `json:"a,omitempty"`
	B       string `json:"b,omitempty"`
	C       string `json:"c,omitempty"`
	RA      string `json:"ra,omitempty"`
	RB      string `json:"rb,omitempty"`
	RC      string `json:"rc,omitempty"`
	SA      int    `json:"sa,omitempty"` // literal spelling of the operands in source text
	SB      int    `json:"sb,omitempty"`
	SC      int    `json:"sc,omitempty"`
	Base    int    `json:"base,omitempty"`
	Txt     string `json:"txt,omitempty"`
	NoB     bool   `json:"nobase,omitempty"` // int(text) without the base argument
	a, b, c *big.Int
}

func (c *Case) fix() {
	p := func(s string) *big.Int {
		v, ok := new(big.Int).SetString(s, 10)
		if !ok {
			return new(big.Int)
		}
		return v
	}
	c.a, c.b, c.c = p(c.A), p(c.B), p(c.C)
}

var unaryOps = map[string]bool{"neg": true, "pos": true, "abs": true, "invert": true, "int": true, "round": true, "index": true,
	"truth": true, "not": true, "boolcall": true, "str": true, "repr": true, "hex": true, "oct": true, "bin": true}
var textOps = map[string]bool{"parse": true, "lit": true}

func arity(op string) int {
	switch {
	case unaryOps[op]:
		return 1
	case textOps[op]:
		return 0
	case op == "pow3":
		return 3
	}
	return 2
}

func (c *Case) sig() string {
	return fmt.Sprintf("%s|%s|%s|%s%s|%s%s|%s%s|%d%d%d|%d|%q|%v", c.Op, c.Form, c.Via, c.A, c.RA, c.B, c.RB, c.C, c.RC, c.SA, c.SB, c.SC, c.Base, c.Txt, c.NoB)
}

// ---------------------------------------------------------------------------------------
// running one case through the Go API

var wordMin = big.NewInt(-1 << 63)
var wordMax = new(big.Int).SetUint64(1<<63 - 1)

func fitsWord(v *big.Int) bool { return v.Cmp(wordMin) >= 0 && v.Cmp(wordMax) <= 0 }

func mk(v *big.Int, rep string) py.Object {
	if rep == "w" {
		return py.Int(v.Int64())
	}
	return (*py.BigInt)(new(big.Int).Set(v))
}

func one(t bool) *int {
	x := 0
	if t {
		x = 1
	}
	return &x
}

func intOf(o py.Object) (*big.Int, string, bool) {
	switch t := o.(type) {
	case py.Int:
		return big.NewInt(int64(t)), "w", true
	case *py.BigInt:
		if t == nil {
			return nil, "", false
		}
		return new(big.Int).Set((*big.Int)(t)), "B", true
	}
	return nil, "", false
}

func observe(o py.Object) Obs {
	if o == nil {
		return Obs{K: "panic", note: "nil result without error"}
	}
	if b, ok := o.(py.Bool); ok {
		return Obs{K: "bool", T: one(bool(b))}
	}
	if v, r, ok := intOf(o); ok {
		return Obs{K: "int", V: encZ(v), RV: r}
	}
	switch t := o.(type) {
	case py.Float:
		return Obs{K: "float"}
	case py.String:
		return Obs{K: "text", Txt: codes(string(t))}
	case *py.List:
		if t != nil && len(t.Items) == 2 {
			return observe(py.Tuple(t.Items))
		}
	case py.Tuple:
		if len(t) == 2 {
			v1, r1, ok1 := intOf(t[0])
			v2, r2, ok2 := intOf(t[1])
			if ok1 && ok2 {
				return Obs{K: "pair", V: encZ(v1), RV: r1, V2: encZ(v2), RV2: r2}
			}
		}
	}
	return Obs{K: "other:" + o.Type().Name}
}

func obsOfResult(r *pyrun.Result, val py.Object) Obs {
	switch {
	case r.TimedOut:
		return Obs{K: "timeout"}
	case r.Panic != "":
		return Obs{K: "panic", note: r.PanicSite + ": " + r.Panic}
	case r.Exc != "":
		return Obs{K: "exc", Bases: r.ExcBases, note: r.Msg}
	}
	return observe(val)
}

type binFn func(a, b py.Object) (py.Object, error)

var binAPI = map[string]binFn{"add": py.Add, "sub": py.Sub, "mul": py.Mul, "floordiv": py.FloorDiv, "mod": py.Mod, "truediv": py.TrueDiv,
	"lshift": py.Lshift, "rshift": py.Rshift, "and": py.And, "or": py.Or, "xor": py.Xor,
	"lt": py.Lt, "le": py.Le, "eq": py.Eq, "ne": py.Ne, "gt": py.Gt, "ge": py.Ge}
var ibinAPI = map[string]binFn{"add": py.IAdd, "sub": py.ISub, "mul": py.IMul, "floordiv": py.IFloorDiv, "mod": py.IMod, "truediv": py.ITrueDiv,
	"lshift": py.ILshift, "rshift": py.IRshift, "and": py.IAnd, "or": py.IOr, "xor": py.IXor}

type apiEnv struct {
	builtins py.StringDict
}

func (e *apiEnv) builtin(name string, args ...py.Object) (py.Object, error) {
	f, ok := e.builtins[name]
	if !ok {
		return nil, py.ExceptionNewf(py.NameError, "name '%s' is not defined", name)
	}
	return py.Call(f, py.Tuple(args), nil)
}

func (e *apiEnv) run(c *Case) Obs {
	var val py.Object
	var operands [3]py.Object
	nops := arity(c.Op)
	if nops >= 1 {
		operands[0] = mk(c.a, c.RA)
	}
	if nops >= 2 {
		operands[1] = mk(c.b, c.RB)
	}
	if nops >= 3 {
		operands[2] = mk(c.c, c.RC)
	}
	r := pyrun.Guard(20*time.Second, func() error {
		var err error
		a := operands[0]
		switch arity(c.Op) {
		case 1:
			switch c.Op {
			case "neg":
				val, err = py.Neg(a)
			case "pos":
				val, err = py.Pos(a)
			case "abs":
				val, err = py.Abs(a)
			case "invert":
				val, err = py.Invert(a)
			case "int":
				val, err = py.Call(py.IntType, py.Tuple{a}, nil)
			case "round":
				val, err = e.builtin("round", a)
			case "index":
				var i py.Int
				i, err = py.Index(a)
				val = i
			case "truth":
				var t bool
				t, err = py.ObjectIsTrue(a)
				val = py.NewBool(t)
			case "not":
				val, err = py.Not(a)
			case "boolcall":
				val, err = py.Call(py.BoolType, py.Tuple{a}, nil)
			case "str":
				val, err = py.Str(a)
			case "repr":
				val, err = py.Repr(a)
			case "hex", "oct", "bin":
				val, err = e.builtin(c.Op, a)
			default:
				return fmt.Errorf("harness: unknown unary op %s", c.Op)
			}
		case 2:
			b := operands[1]
			switch {
			case c.Op == "divmod":
				var q, m py.Object
				q, m, err = py.DivMod(a, b)
				if err == nil {
					val = py.Tuple{q, m}
				}
			case c.Op == "pow" && c.Form == "i":
				val, err = py.IPow(a, b, py.None)
			case c.Op == "pow":
				val, err = py.Pow(a, b, py.None)
			case c.Form == "i":
				f := ibinAPI[c.Op]
				if f == nil {
					return fmt.Errorf("harness: no in-place form of %s", c.Op)
				}
				val, err = f(a, b)
			default:
				f := binAPI[c.Op]
				if f == nil {
					return fmt.Errorf("harness: unknown binary op %s", c.Op)
				}
				val, err = f(a, b)
			}
		case 3:
			val, err = py.Pow(a, operands[1], operands[2])
		case 0: // parse
			if c.NoB {
				val, err = py.Call(py.IntType, py.Tuple{py.String(c.Txt)}, nil)
			} else {
				val, err = py.Call(py.IntType, py.Tuple{py.String(c.Txt), py.Int(c.Base)}, nil)
			}
		}
		return err
	})
	if r.Exc == "GoError" {
		common.Inconclusive("property=C07 %s", r.Msg)
	}
	o := obsOfResult(r, val)
	if !r.TimedOut && nops > 0 {
		o.after = rereadObjects(operands[:nops])
	}
	return o
}

// rereadObjects reads the operand objects again after the operation.
func rereadObjects(objs []py.Object) *After {
	af := &After{N: len(objs)}
	for i, ob := range objs {
		func() {
			defer func() { recover() }()
			if v, r, ok := intOf(ob); ok {
				af.V[i], af.R[i] = v, r
			}
		}()
	}
	return af
}

// ---------------------------------------------------------------------------------------
// rendering a case as Python source

// spell renders an integer literal in one of the spellings of the 3.4 grammar (no sign).
func spellAbs(v *big.Int, sp int) string {
	m := new(big.Int).Abs(v)
	switch sp % 7 {
	case 1:
		return "0x" + m.Text(16)
	case 2:
		return "0X" + strings.ToUpper(m.Text(16))
	case 3:
		return "0o" + m.Text(8)
	case 4:
		return "0b" + m.Text(2)
	case 5:
		return "0B" + m.Text(2)
	case 6:
		return "0O" + m.Text(8)
	}
	return m.Text(10)
}

func lit(v *big.Int, sp int) string {
	if v.Cmp(wordMin) == 0 {
		// -2**63 written as a negated literal is -(2**63): the operand would be the result of a negation of a
		// big value (that case belongs to the operator neg); as an operand it is written as a word computation
		return "(-" + spellAbs(wordMax, sp) + " - 1)"
	}
	if v.Sign() < 0 {
		return "(-" + spellAbs(v, sp) + ")"
	}
	return spellAbs(v, sp)
}

var binSym = map[string]string{"add": "+", "sub": "-", "mul": "*", "floordiv": "//", "mod": "%", "truediv": "/", "lshift": "<<", "rshift": ">>",
	"and": "&", "or": "|", "xor": "^", "pow": "**", "lt": "<", "le": "<=", "eq": "==", "ne": "!=", "gt": ">", "ge": ">="}

func pyQuote(s string) string {
	var b strings.Builder
	b.WriteByte('\'')
	for _, r := range s {
		switch {
		case r == '\\' || r == '\'':
			b.WriteByte('\\')
			b.WriteRune(r)
		case r == '\n':
			b.WriteString("\\n")
		case r == '\t':
			b.WriteString("\\t")
		case r == '\r':
			b.WriteString("\\r")
		case r < 32:
			fmt.Fprintf(&b, "\\x%02x", r)
		default:
			b.WriteRune(r)
		}
	}
	b.WriteByte('\'')
	return b.String()
}

// expr renders the case as one Python expression ("" if the case needs statements).
func (c *Case) expr() string {
	return c.exprWith(lit(c.a, c.SA), lit(c.b, c.SB), lit(c.c, c.SC))
}

// exprWith renders the expression over the given operand texts (literals, or names bound to the operands).
func (c *Case) exprWith(a, b, cc string) string {
	switch arity(c.Op) {
	case 1:
		switch c.Op {
		case "neg":
			return "-" + a
		case "pos":
			return "+" + a
		case "invert":
			return "~" + a
		case "abs", "int", "round", "str", "repr", "hex", "oct", "bin":
			return c.Op + "(" + a + ")"
		case "boolcall":
			return "bool(" + a + ")"
		case "index":
			return "(" + a + ").__index__()"
		case "truth":
			return "(True if " + a + " else False)"
		case "not":
			return "not " + a
		}
	case 2:
		if c.Form == "i" {
			return ""
		}
		switch c.Op {
		case "divmod":
			return "list(divmod(" + a + ", " + b + "))"
		case "hasheq":
			return "hash(" + a + ") == hash(" + b + ")"
		}
		if s, ok := binSym[c.Op]; ok {
			return a + " " + s + " " + b
		}
	case 3:
		return "pow(" + a + ", " + b + ", " + cc + ")"
	case 0:
		if c.Op == "lit" {
			return c.Txt
		}
		if c.NoB {
			return "int(" + pyQuote(c.Txt) + ")"
		}
		return "int(" + pyQuote(c.Txt) + ", " + strconv.Itoa(c.Base) + ")"
	}
	return ""
}

const scaffold = `def show(i, th):
    try:
        res = th()
    except ZeroDivisionError:
        res = 'E:ZeroDivisionError'
    except OverflowError:
        res = 'E:OverflowError'
    except MemoryError:
        res = 'E:MemoryError'
    except ValueError:
        res = 'E:ValueError'
    except TypeError:
        res = 'E:TypeError'
    except NameError:
        res = 'E:NameError'
    except AttributeError:
        res = 'E:AttributeError'
    except SystemError:
        res = 'E:SystemError'
    except Exception:
        res = 'E:Exception'
    print(i, res)
`

// stmt renders the case for the program route: the operands are bound to names, the operation is a thunk over those
// names handed to show, and the names are printed again afterwards (an int object must not change under an operator;
// for an augmented assignment the name xN is the alias of the old object, the thunk rebinds only its own local).
func (c *Case) stmt(i int) string {
	n := arity(c.Op)
	if n == 0 {
		return fmt.Sprintf("show(%d, lambda: %s)\n", i, c.expr())
	}
	var b strings.Builder
	names := [3]string{fmt.Sprintf("x%d", i), fmt.Sprintf("y%d", i), fmt.Sprintf("z%d", i)}
	lits := [3]string{lit(c.a, c.SA), lit(c.b, c.SB), lit(c.c, c.SC)}
	for k := 0; k < n; k++ {
		fmt.Fprintf(&b, "%s = %s\n", names[k], lits[k])
	}
	if c.Form == "i" {
		fmt.Fprintf(&b, "def f%d():\n    x = %s\n    x %s= %s\n    return x\nshow(%d, f%d)\n", i, names[0], binSym[c.Op], names[1], i, i)
	} else {
		fmt.Fprintf(&b, "show(%d, lambda: %s)\n", i, c.exprWith(names[0], names[1], names[2]))
	}
	fmt.Fprintf(&b, "print('o', %d, %s)\n", i, strings.Join(names[:n], ", "))
	return b.String()
}

// parseOut turns one payload of program output into an observation (results read from text carry no representation).
func parseOut(c *Case, payload string) Obs {
	if strings.HasPrefix(payload, "E:") {
		return Obs{K: "exc", Bases: []string{payload[2:]}}
	}
	switch payload {
	case "True":
		return Obs{K: "bool", T: one(true)}
	case "False":
		return Obs{K: "bool", T: one(false)}
	}
	switch c.Op {
	case "str", "repr", "hex", "oct", "bin":
		return Obs{K: "text", Txt: codes(payload)}
	}
	if strings.HasPrefix(payload, "[") && strings.HasSuffix(payload, "]") {
		parts := strings.Split(payload[1:len(payload)-1], ", ")
		if len(parts) == 2 {
			q, ok1 := new(big.Int).SetString(parts[0], 10)
			r, ok2 := new(big.Int).SetString(parts[1], 10)
			if ok1 && ok2 {
				return Obs{K: "pair", V: encZ(q), RV: "?", V2: encZ(r), RV2: "?"}
			}
		}
	}
	if v, ok := new(big.Int).SetString(payload, 10); ok {
		return Obs{K: "int", V: encZ(v), RV: "?"}
	}
	if _, err := strconv.ParseFloat(strings.ToLower(strings.TrimPrefix(payload, "+")), 64); err == nil {
		return Obs{K: "float"}
	}
	return Obs{K: "text", Txt: codes(payload)}
}

// runProgram runs a batch of cases as one compiled program and returns the observation of each.
func runProgram(cs []*Case) []Obs {
	var src strings.Builder
	src.WriteString(scaffold)
	for i, c := range cs {
		src.WriteString(c.stmt(i))
	}
	ctx := pyrun.New()
	r := ctx.Exec(src.String(), 5*time.Minute)
	ctx.Close()
	out := make([]Obs, len(cs))
	got := make([]bool, len(cs))
	afters := map[int]*After{}
	for _, l := range strings.Split(r.Stdout, "\n") {
		if strings.HasPrefix(l, "o ") { // operands printed again after the operation
			f := strings.Fields(l)
			if len(f) >= 3 {
				if i, err := strconv.Atoi(f[1]); err == nil && i >= 0 && i < len(cs) && len(f)-2 <= 3 {
					af := &After{N: len(f) - 2}
					for k, t := range f[2:] {
						if v, ok := new(big.Int).SetString(t, 10); ok {
							af.V[k], af.R[k] = v, "?"
						}
					}
					afters[i] = af
				}
			}
			continue
		}
		sp := strings.IndexByte(l, ' ')
		if sp <= 0 {
			continue
		}
		i, err := strconv.Atoi(l[:sp])
		if err != nil || i < 0 || i >= len(cs) || got[i] {
			continue
		}
		out[i], got[i] = parseOut(cs[i], l[sp+1:]), true
	}
	for i := range cs {
		if got[i] {
			continue
		}
		if len(cs) == 1 {
			out[i] = obsOfResult(r, nil)
			if out[i].K == "panic" && r.Panic == "" {
				out[i] = Obs{K: "other:no-output"}
			}
			if r.CompileErr && out[i].K == "exc" {
				out[i].note = "compile: " + out[i].note
			}
		} else {
			out[i] = runProgram([]*Case{cs[i]})[0] // isolate the case whose output is missing
		}
	}
	for i := range cs {
		if got[i] && out[i].after == nil {
			out[i].after = afters[i]
		}
	}
	return out
}

// runEval compiles and evaluates the case as one expression.  The operands are first bound to names by a compiled
// assignment of their literals (so the objects can be inspected before and after the operation).
func runEval(ctx *pyrun.Ctx, c *Case) Obs {
	n := arity(c.Op)
	if n == 0 {
		r := ctx.Eval(c.expr(), 30*time.Second)
		return obsOfResult(r, r.Value)
	}
	names := []string{"ea", "eb", "ec"}[:n]
	lits := []string{lit(c.a, c.SA), lit(c.b, c.SB), lit(c.c, c.SC)}
	var src strings.Builder
	for k, nm := range names {
		fmt.Fprintf(&src, "%s = %s\n", nm, lits[k])
	}
	if pre := ctx.Exec(src.String(), 30*time.Second); pre.Outcome() != "ok" || ctx.Mod == nil {
		// the operands could not even be bound: evaluate the plain expression, its outcome is the observation
		r := ctx.Eval(c.expr(), 30*time.Second)
		return obsOfResult(r, r.Value)
	}
	objs := make([]py.Object, n)
	var before [3]string
	for k, nm := range names {
		objs[k] = ctx.Mod.Globals[nm]
		if _, r, ok := intOf(objs[k]); ok {
			before[k] = r
		}
	}
	r := ctx.Eval(c.exprWith("ea", "eb", "ec"), 30*time.Second)
	o := obsOfResult(r, r.Value)
	if !r.TimedOut {
		o.after = rereadObjects(objs)
		o.after.R0 = before
	}
	return o
}

// ---------------------------------------------------------------------------------------
// generating the cases

// devOps: development aid for trying the check against mutated copies on a loaded machine: C07_DEV_OPS=add,sub
// restricts the generated cases to those operators (the full run is the union over the operators).
var devOps = func() map[string]bool {
	v := os.Getenv("C07_DEV_OPS")
	if v == "" {
		return nil
	}
	m := map[string]bool{}
	for _, o := range strings.Split(v, ",") {
		m[o] = true
	}
	return m
}()

type gen struct {
	rng   *rand.Rand
	env   *common.Env
	cases []*Case
	seen  map[string]bool
	lat   []*big.Int
}

func (g *gen) add(c Case) {
	c.fix()
	if c.Via == "" {
		c.Via = "api"
	}
	canon := func(v *big.Int) string {
		if fitsWord(v) {
			return "w"
		}
		return "B"
	}
	n := arity(c.Op)
	if c.Via == "api" {
		if n >= 1 && (c.RA == "" || !fitsWord(c.a)) {
			c.RA = canon(c.a)
		}
		if n >= 2 && (c.RB == "" || !fitsWord(c.b)) {
			c.RB = canon(c.b)
		}
		if n >= 3 && (c.RC == "" || !fitsWord(c.c)) {
			c.RC = canon(c.c)
		}
	} else {
		c.RA, c.RB, c.RC = "s", "s", "s"
	}
	if n < 3 {
		c.C, c.RC, c.SC = "", "", 0
	}
	if n < 2 {
		c.B, c.RB, c.SB = "", "", 0
	}
	if n < 1 {
		c.A, c.RA, c.SA = "", "", 0
	}
	if c.Via == "api" {
		c.SA, c.SB, c.SC = 0, 0, 0
	}
	if c.Via == "eval" && c.Form == "i" {
		c.Via = "src" // augmented assignment is a statement
	}
	if c.Form == "i" && ibinAPI[c.Op] == nil && c.Op != "pow" {
		c.Form = "" // comparisons, divmod, pow3 have no in-place form
	}
	if devOps != nil && !devOps[c.Op] {
		return
	}
	s := c.sig()
	if g.seen[s] {
		return
	}
	g.seen[s] = true
	cc := c
	g.cases = append(g.cases, &cc)
}

func pow2(k uint) *big.Int { return new(big.Int).Lsh(big.NewInt(1), k) }

func lattice(thorough bool) []*big.Int {
	var out []*big.Int
	seen := map[string]bool{}
	put := func(v *big.Int) {
		for _, s := range []int64{1, -1} {
			w := new(big.Int).Mul(v, big.NewInt(s))
			if !seen[w.String()] {
				seen[w.String()] = true
				out = append(out, w)
			}
		}
	}
	for _, v := range []int64{0, 1, 2} {
		put(big.NewInt(v))
	}
	exps := []uint{31, 32, 62, 63, 64, 127}
	if thorough {
		exps = []uint{15, 16, 30, 31, 32, 33, 45, 62, 63, 64, 65, 127, 128}
	}
	for _, k := range exps {
		ds := []int64{-1, 0, 1}
		if thorough || k == 63 {
			ds = []int64{-2, -1, 0, 1, 2}
		}
		for _, d := range ds {
			put(new(big.Int).Add(pow2(k), big.NewInt(d)))
		}
	}
	for _, d := range []int64{-1, 0, 1, 2} { // 2^31.5: floor(sqrt(2^63-1)) = 3037000499
		put(big.NewInt(3037000499 + d))
	}
	return out
}

func (g *gen) random() *big.Int {
	bits := 1 + g.rng.Intn(192)
	v := new(big.Int).Rand(g.rng, pow2(uint(bits)))
	if g.rng.Intn(2) == 0 {
		v.Neg(v)
	}
	return v
}

var coreBin = []string{"add", "sub", "mul", "divmod", "floordiv", "mod"}
var otherBin = []string{"and", "or", "xor", "lt", "le", "eq", "ne", "gt", "ge"}
var unaryList = []string{"neg", "pos", "abs", "invert", "int", "round", "truth", "not", "str", "repr", "hex", "oct", "bin"}

// variant adds, with probability p, one variation of the base case: another representation of the
// operands, the in-place form, or another route (compiled expression / compiled program, random spellings).
func (g *gen) variant(c Case, p float64) {
	if g.rng.Float64() >= p {
		return
	}
	reps := func() {
		c.RA, c.RB, c.RC = "wB"[g.rng.Intn(2):][:1], "wB"[g.rng.Intn(2):][:1], "wB"[g.rng.Intn(2):][:1]
		if c.RA == "w" && c.RB != "B" && c.RC != "B" {
			c.RA = "B"
		}
	}
	switch g.rng.Intn(6) {
	case 0, 1:
		reps()
	case 2:
		c.Form = "i"
		if g.rng.Intn(2) == 0 {
			reps()
		}
	case 3, 4:
		c.Via = "eval"
		c.SA, c.SB, c.SC = g.rng.Intn(7), g.rng.Intn(7), g.rng.Intn(7)
	case 5:
		c.Via = "src"
		c.SA, c.SB, c.SC = g.rng.Intn(7), g.rng.Intn(7), g.rng.Intn(7)
		if g.rng.Intn(4) == 0 {
			c.Form = "i"
		}
	}
	g.add(c)
}

var shiftCounts = []int64{0, 1, 2, 14, 15, 16, 30, 31, 32, 33, 62, 63, 64, 65, 100, 127, 128, 200}

func (g *gen) generate() {
	th := g.env.Thorough()
	g.lat = lattice(th)
	pv := 0.5
	if !th {
		pv = 0.3
	}
	S := func(v *big.Int) string { return v.String() }
	// all ordered pairs of the lattice x binary operators
	for _, a := range g.lat {
		for _, b := range g.lat {
			for _, op := range coreBin {
				c := Case{Op: op, A: S(a), B: S(b)}
				g.add(c)
				g.variant(c, pv)
			}
			for _, op := range otherBin {
				if g.rng.Intn(g.env.Pick(4, 3)) != 0 {
					continue
				}
				c := Case{Op: op, A: S(a), B: S(b)}
				g.add(c)
				g.variant(c, pv)
			}
			if b.Sign() == 0 {
				c := Case{Op: "truediv", A: S(a), B: S(b)}
				g.add(c)
				g.variant(c, 1)
			}
		}
	}
	// shifts: lattice x (small counts, negative counts of any size, counts beyond the word size)
	var negs, huge []*big.Int
	for _, v := range g.lat {
		if v.Sign() < 0 && (th || g.rng.Intn(3) == 0) {
			negs = append(negs, v)
		}
	}
	negs = append(negs, big.NewInt(-1), new(big.Int).Neg(pow2(63)), new(big.Int).Neg(pow2(64)))
	huge = []*big.Int{pow2(31), pow2(62), new(big.Int).Sub(pow2(63), big.NewInt(1)), pow2(63), pow2(64), pow2(127)}
	for _, a := range g.lat {
		for _, op := range []string{"lshift", "rshift"} {
			for _, n := range shiftCounts {
				c := Case{Op: op, A: S(a), B: strconv.FormatInt(n, 10)}
				g.add(c)
				g.variant(c, pv)
			}
			for _, n := range negs {
				c := Case{Op: op, A: S(a), B: S(n)}
				g.add(c)
				g.variant(c, pv/2)
			}
			for _, n := range huge {
				if op == "lshift" && a.Sign() != 0 { // would need 2^n bits of memory
					continue
				}
				c := Case{Op: op, A: S(a), B: S(n)}
				g.add(c)
				g.variant(c, pv)
			}
		}
	}
	// powers: lattice ** small exponents (result <= 2048 bits), {0, 1, -1} ** anything, negative exponents
	for _, a := range g.lat {
		for _, e := range []int64{0, 1, 2, 3, 4, 5, 7, 8, 15, 16, 17, 31, 32, 33, 63, 64, 65} {
			if a.BitLen() > 1 && int64(a.BitLen())*e > 2048 {
				continue
			}
			c := Case{Op: "pow", A: S(a), B: strconv.FormatInt(e, 10)}
			g.add(c)
			g.variant(c, pv)
		}
		for _, e := range []*big.Int{big.NewInt(-1), big.NewInt(-2), big.NewInt(-3), new(big.Int).Neg(pow2(31)), new(big.Int).Neg(pow2(63))} {
			c := Case{Op: "pow", A: S(a), B: S(e)}
			g.add(c)
			g.variant(c, pv)
		}
	}
	for _, a := range []int64{0, 1, -1} {
		for _, e := range g.lat {
			c := Case{Op: "pow", A: strconv.FormatInt(a, 10), B: S(e)}
			g.add(c)
			g.variant(c, pv)
		}
	}
	// three-argument pow: triples of a small lattice (sampled in quick), negative exponents, zero and negative moduli
	B := func(s string) *big.Int { v, _ := new(big.Int).SetString(s, 10); return v }
	pa := []*big.Int{B("0"), B("1"), B("-1"), B("2"), B("-3"), pow2(31), B("3037000500"), B("9223372036854775807"), pow2(63), new(big.Int).Neg(pow2(63)), B("18446744073709551617"), new(big.Int).Sub(pow2(127), big.NewInt(1))}
	pe := []*big.Int{B("0"), B("1"), B("2"), B("5"), B("63"), B("64"), pow2(31), B("9223372036854775807"), pow2(63), B("18446744073709551617"), B("-1"), B("-2"), new(big.Int).Neg(pow2(63)), new(big.Int).Neg(pow2(64))}
	pm := []*big.Int{B("1"), B("-1"), B("2"), B("7"), B("-7"), pow2(31), B("3037000500"), B("9223372036854775807"), pow2(63), new(big.Int).Neg(pow2(63)), pow2(64), new(big.Int).Sub(pow2(127), big.NewInt(1)), B("-170141183460469231731687303715884105727"), B("0")}
	for _, a := range pa {
		for _, e := range pe {
			for _, m := range pm {
				if !th && g.rng.Intn(6) != 0 {
					continue
				}
				if m.Sign() == 0 && a.BitLen() > 1 && (e.BitLen() > 7 || int64(a.BitLen())*e.Int64() > 2048) {
					// pow(a, e, 0) must raise ValueError; math/big treats a zero modulus as "no modulus",
					// so the subject would try to compute a**e: only bounded powers may be tried
					continue
				}
				c := Case{Op: "pow3", A: S(a), B: S(e), C: S(m)}
				g.add(c)
				g.variant(c, pv)
			}
		}
	}
	// unary operators and text conversions, every representation
	for _, a := range g.lat {
		for _, op := range unaryList {
			g.add(Case{Op: op, A: S(a)})
			if fitsWord(a) {
				g.add(Case{Op: op, A: S(a), RA: "B"})
			}
			if g.rng.Intn(3) == 0 {
				g.add(Case{Op: op, A: S(a), Via: "eval", SA: g.rng.Intn(7)})
			}
			if g.rng.Intn(4) == 0 {
				g.add(Case{Op: op, A: S(a), Via: "src", SA: g.rng.Intn(7)})
			}
		}
		g.add(Case{Op: "lit", Via: "eval", Txt: spellAbs(a, g.rng.Intn(7))})
		g.add(Case{Op: "lit", Via: "src", Txt: spellAbs(a, g.rng.Intn(7))})
		g.textCases(a, 3)
	}
	// bool(x), hash(x) and x.__index__() called from Python code (two operand classes each)
	for _, a := range []*big.Int{B("5"), pow2(64)} {
		g.add(Case{Op: "boolcall", A: S(a), Via: "eval"})
		g.add(Case{Op: "hasheq", A: S(a), B: S(a), Via: "eval", SA: 0, SB: 1})
		g.add(Case{Op: "index", A: S(a), Via: "eval"})
	}
	// seeded random operands of 1..192 bits, every operator
	nr := g.env.Pick(150, 2500)
	for i := 0; i < nr; i++ {
		a, b := g.random(), g.random()
		if g.rng.Intn(4) == 0 {
			b = g.lat[g.rng.Intn(len(g.lat))]
		}
		for _, op := range append(append([]string{}, coreBin...), otherBin...) {
			c := Case{Op: op, A: S(a), B: S(b)}
			g.add(c)
			g.variant(c, pv)
		}
		for _, op := range unaryList {
			c := Case{Op: op, A: S(a)}
			g.add(c)
			if fitsWord(a) {
				g.add(Case{Op: op, A: S(a), RA: "B"})
			}
			g.variant(c, pv/2)
		}
		n := strconv.Itoa(g.rng.Intn(260))
		for _, op := range []string{"lshift", "rshift"} {
			c := Case{Op: op, A: S(a), B: n}
			g.add(c)
			g.variant(c, pv)
		}
		if e := int64(g.rng.Intn(40)); int64(a.BitLen())*e <= 2048 {
			c := Case{Op: "pow", A: S(a), B: strconv.FormatInt(e, 10)}
			g.add(c)
			g.variant(c, pv)
		}
		g.textCases(a, 1)
	}
	// three-argument pow on random operands; the exponent's size is what costs in TLC (about 2.5 ms per bit)
	np := g.env.Pick(80, 1500)
	for i := 0; i < np; i++ {
		a, m := g.random(), g.random()
		var e *big.Int
		switch r := g.rng.Intn(10); {
		case r < 5:
			e = new(big.Int).Rand(g.rng, pow2(uint(1+g.rng.Intn(16))))
		case r < 8:
			e = new(big.Int).Rand(g.rng, pow2(uint(1+g.rng.Intn(64))))
		default:
			e = new(big.Int).Rand(g.rng, pow2(uint(1+g.rng.Intn(192))))
		}
		if m.Sign() == 0 {
			m = big.NewInt(7)
		}
		c := Case{Op: "pow3", A: S(a), B: S(e), C: S(m)}
		g.add(c)
		g.variant(c, pv)
	}
}

// textCases: int(text, base) for spellings of v (prefix, case, sign, white space, base 0) and malformed texts.
func (g *gen) textCases(v *big.Int, n int) {
	for i := 0; i < n; i++ {
		base := []int{2, 8, 10, 16}[g.rng.Intn(4)]
		m := new(big.Int).Abs(v)
		body := m.Text(base)
		if g.rng.Intn(3) == 0 {
			body = strings.ToUpper(body)
		}
		pfx := map[int]string{2: "0b", 8: "0o", 16: "0x", 10: ""}[base]
		if g.rng.Intn(3) == 0 {
			pfx = strings.ToUpper(pfx)
		}
		pb := base
		if g.rng.Intn(3) == 0 {
			pb = 0
		}
		if pb != 0 && g.rng.Intn(2) == 0 {
			pfx = ""
		}
		sign := ""
		if v.Sign() < 0 {
			sign = "-"
		} else if g.rng.Intn(4) == 0 {
			sign = "+"
		}
		t := []string{"", "", " ", "\t", "  "}[g.rng.Intn(5)] + sign + pfx + body + []string{"", "", " ", "\n"}[g.rng.Intn(4)]
		switch g.rng.Intn(14) { // malformed variants
		case 0:
			t = sign + pfx
		case 1:
			t = sign + pfx + body + "g"
		case 2:
			t = "- " + pfx + body
		case 3:
			t = "0" + body
		case 4:
			t = body + "_1"
		case 5:
			t = sign + pfx + body + string(rune('0'+base%10))
		}
		c := Case{Op: "parse", Txt: t, Base: pb}
		if pb == 10 && g.rng.Intn(2) == 0 {
			c.NoB = true
		}
		c.Via = []string{"api", "api", "eval", "src"}[g.rng.Intn(4)]
		g.add(c)
	}
}

// ---------------------------------------------------------------------------------------
// main

type badRec struct {
	L   int    `json:"l"`
	Key string `json:"key"`
	Exp *struct {
		K     string `json:"k"`
		V     *Z     `json:"v"`
		V2    *Z     `json:"v2"`
		T     int    `json:"t"`
		Txt   []int  `json:"txt"`
		Ename string `json:"ename"`
	} `json:"exp"`
}

func describe(c *Case, o Obs) map[string]interface{} {
	d := map[string]interface{}{"case": c}
	if e := c.expr(); e != "" && c.Via != "api" {
		d["python"] = e
	} else if c.Via != "api" {
		d["python"] = c.stmt(0)
	} else {
		d["go_api"] = fmt.Sprintf("%s%s(%s as %s, %s as %s, %s as %s)", c.Form, c.Op, c.A, c.RA, c.B, c.RB, c.C, c.RC)
	}
	ob := map[string]interface{}{"kind": o.K}
	if o.V != nil {
		ob["value"] = decZ(o.V).String()
		ob["rep"] = o.RV
	}
	if o.V2 != nil {
		ob["value2"] = decZ(o.V2).String()
		ob["rep2"] = o.RV2
	}
	if o.T != nil {
		ob["truth"] = *o.T
	}
	if o.Txt != nil {
		ob["text"] = uncodes(*o.Txt)
	}
	if len(o.Bases) > 0 {
		ob["exception"] = o.Bases
	}
	if o.note != "" {
		ob["note"] = o.note
	}
	d["observed"] = ob
	if af := o.after; af != nil {
		var as []string
		for k := 0; k < af.N; k++ {
			if af.V[k] == nil {
				as = append(as, "unreadable")
			} else {
				as = append(as, af.V[k].String()+" as "+af.R[k])
			}
		}
		d["operands_after"] = as
	}
	return d
}

func main() {
	env := common.Setup()
	rep := common.NewReport(env, "model_checking")
	rep.Assumptions = []string{
		"TLC and the CommunityModules (Json, Bitwise, SequencesExt folds) are correct",
		"the harness transports numbers faithfully (math/big <-> base-2^15 digit sequences, decimal program output parsed with math/big) and renders literals dumbly (value -> spelling); spellings are cross-checked by the 'lit' lines whose text the specification parses itself",
		"results read from program output carry no representation (rep '?'); representation is observed on the Go API and compiled-expression routes",
	}
	g := &gen{rng: rand.New(rand.NewSource(env.Seed)), env: env, seen: map[string]bool{}}
	var lawsDone chan *common.TLCResult
	lawsCfg := ""

	if env.Replay != "" {
		b, err := os.ReadFile(env.Replay)
		if err != nil {
			common.Inconclusive("property=C07 replay: %v", err)
		}
		var rp struct {
			Case struct {
				Case Case `json:"case"`
			} `json:"case"`
		}
		if err := json.Unmarshal(b, &rp); err != nil || rp.Case.Case.Op == "" {
			common.Inconclusive("property=C07 replay file %s does not hold a case: %v", env.Replay, err)
		}
		c := rp.Case.Case
		c.fix()
		g.cases = []*Case{&c}
	} else {
		// 1. design check, concurrently with running and validating the cases (loading a trace is single-threaded)
		if os.Getenv("C07_DEV_NOLAWS") != "1" { // development aid: skip the design check while trying mutated copies
			cfg := "laws_quick.cfg"
			if env.Thorough() {
				cfg = "laws_thorough.cfg"
			}
			lawsDone = make(chan *common.TLCResult, 1)
			lw := env.Workers / 4 // the design check gets a quarter of the workers, the trace validators share the rest
			if lw < 1 {
				lw = 1
			}
			go func() {
				lawsDone <- env.MustTLC(common.TLCRun{Dir: "C07", Module: "PyIntLaws", Config: cfg, Workers: lw, Timeout: 14 * time.Minute})
			}()
			lawsCfg = cfg
		}
		g.generate()
	}

	// 2. run every case on the real code
	tRun := time.Now()
	obs := make([]Obs, len(g.cases))
	total := len(g.cases)
	api := &apiEnv{}
	bctx := pyrun.New()
	api.builtins = bctx.Ctx.Store().Builtins.Globals
	var srcIdx, evalIdx []int
	dropped := 0
	for i, c := range g.cases {
		if dropped > 0 {
			// an operation timed out: its goroutine cannot be killed and may keep allocating, so the
			// run is cut short here (lines so far are still validated, the timeout itself is a divergence)
			dropped++
			continue
		}
		switch c.Via {
		case "api":
			obs[i] = api.run(c)
			if obs[i].K == "timeout" {
				g.cases = g.cases[:i+1]
				dropped = 1
			}
		case "eval":
			evalIdx = append(evalIdx, i)
		default:
			srcIdx = append(srcIdx, i)
		}
	}
	// compiled expressions and programs in parallel contexts
	var wg sync.WaitGroup
	nw := env.Workers
	per := (len(evalIdx) + nw - 1) / nw
	for w := 0; w < nw && per > 0; w++ {
		lo, hi := w*per, (w+1)*per
		if lo >= len(evalIdx) {
			break
		}
		if hi > len(evalIdx) {
			hi = len(evalIdx)
		}
		wg.Add(1)
		go func(idx []int) {
			defer wg.Done()
			ctx := pyrun.New()
			defer ctx.Close()
			for _, i := range idx {
				obs[i] = runEval(ctx, g.cases[i])
			}
		}(evalIdx[lo:hi])
	}
	const perProg = 200
	sem := make(chan struct{}, nw)
	progs := 0
	for lo := 0; lo < len(srcIdx); lo += perProg {
		hi := lo + perProg
		if hi > len(srcIdx) {
			hi = len(srcIdx)
		}
		progs++
		wg.Add(1)
		sem <- struct{}{}
		go func(idx []int) {
			defer wg.Done()
			defer func() { <-sem }()
			cs := make([]*Case, len(idx))
			for k, i := range idx {
				cs[k] = g.cases[i]
			}
			for k, o := range runProgram(cs) {
				obs[idx[k]] = o
			}
		}(srcIdx[lo:hi])
	}
	wg.Wait()
	bctx.Close()
	runWall := time.Since(tRun).Seconds()

	// 3. the trace, sharded round-robin (three-argument pow lines are the expensive ones)
	for i, o := range obs {
		if strings.HasPrefix(o.K, "other:") {
			// a result of a type the transport does not know: report as an observation kind of its own
			obs[i].K = strings.ReplaceAll(o.K, ":", "-")
		}
	}
	nShards := (len(g.cases) + 39999) / 40000
	par := 2 // concurrent TLC processes (the machine-wide limiter of harness/common has 3 slots; the design check takes one)
	if nShards < par {
		nShards = par
	}
	if len(g.cases) < 2000 {
		nShards, par = 1, 1
	}
	shards := make([]bytes.Buffer, nShards)
	index := make([][]int, nShards)
	opCount, viaCount, kindCount, repCount := map[string]int{}, map[string]int{}, map[string]int{}, map[string]int{}
	operandsReread := 0
	for i, c := range g.cases {
		ln := Line{Op: c.Op, Form: c.Form, O: obs[i]}
		n := arity(c.Op)
		if n >= 1 {
			ln.A, ln.RA = encZ(c.a), c.RA
		}
		if n >= 2 {
			ln.B, ln.RB = encZ(c.b), c.RB
		}
		if n >= 3 {
			ln.C, ln.RC = encZ(c.c), c.RC
		}
		if n == 0 {
			b := c.Base
			if c.Op == "lit" {
				b = 0
			}
			ln.Base, ln.Txt = &b, codes(c.Txt)
		}
		if af := obs[i].after; af != nil {
			zs := []**Z{&ln.AA, &ln.AB, &ln.AC}
			rs := []*string{&ln.RAA, &ln.RAB, &ln.RAC}
			r0 := []*string{&ln.RA0, &ln.RB0, &ln.RC0}
			for k := 0; k < af.N && k < n; k++ {
				if af.V[k] == nil {
					*rs[k] = "unreadable" // no longer an int object at all
					continue
				}
				*zs[k], *rs[k], *r0[k] = encZ(af.V[k]), af.R[k], af.R0[k]
			}
			operandsReread += af.N
		}
		js, err := json.Marshal(ln)
		if err != nil {
			common.Inconclusive("property=C07 marshal: %v", err)
		}
		s := i % nShards
		shards[s].Write(js)
		shards[s].WriteByte('\n')
		index[s] = append(index[s], i)
		opCount[c.Form+c.Op]++
		viaCount[c.Via]++
		kindCount[obs[i].K]++
		if n >= 1 {
			r := c.RA
			if n >= 2 {
				r += c.RB
			}
			if n >= 3 {
				r += c.RC
			}
			for _, z := range []struct {
				v *big.Int
				r string
			}{{c.a, c.RA}, {c.b, c.RB}, {c.c, c.RC}}[:n] {
				if z.r == "B" && fitsWord(z.v) {
					repCount["operand_bigint_holding_word_value"]++
				}
			}
			repCount["operands_"+r]++
		}
		if obs[i].RV != "" {
			repCount["result_"+obs[i].RV]++
		}
	}
	type hit struct {
		idx int
		rec badRec
	}
	var mu sync.Mutex
	var hits []hit
	var machinery []string
	tTLC := time.Now()
	semT := make(chan struct{}, par)
	var wgT sync.WaitGroup
	workers := env.Workers / par
	if lawsDone != nil {
		workers = (env.Workers - env.Workers/4) / par
	}
	if workers < 1 {
		workers = 1
	}
	for s := 0; s < nShards; s++ {
		if len(index[s]) == 0 {
			continue
		}
		wgT.Add(1)
		semT <- struct{}{}
		go func(s int) {
			defer wgT.Done()
			defer func() { <-semT }()
			res := env.MustTLC(common.TLCRun{Dir: "C07", Module: "PyIntTrace", Config: "trace.cfg", Workers: workers,
				Extra: map[string]string{"trace.ndjson": shards[s].String()}, Timeout: 14 * time.Minute,
				OnLine: func(b []byte) {
					var r badRec
					if json.Unmarshal(b, &r) != nil || r.L < 1 || r.L > len(index[s]) {
						mu.Lock()
						machinery = append(machinery, "unreadable record from TLC: "+string(b))
						mu.Unlock()
						return
					}
					mu.Lock()
					hits = append(hits, hit{index[s][r.L-1], r})
					mu.Unlock()
				}})
			if !res.Finished || len(res.Violations) > 0 || res.Distinct != int64(2*len(index[s])) {
				mu.Lock()
				machinery = append(machinery, fmt.Sprintf("trace shard %d: finished=%v violations=%v states=%d for %d lines\n%s", s, res.Finished, res.Violations, res.Distinct, len(index[s]), res.Stdout))
				mu.Unlock()
			}
			rep.AddTLC(res)
		}(s)
	}
	wgT.Wait()
	if len(machinery) > 0 {
		common.Inconclusive("property=C07 %s", strings.Join(machinery, "\n"))
	}
	if lawsDone != nil {
		res := <-lawsDone
		if len(res.Violations) > 0 || !res.Finished {
			common.Inconclusive("property=C07 the specification's own laws fail (spec error, not a verdict): %v\n%s", res.Violations, res.Stdout)
		}
		rep.AddTLC(res)
		rep.Extra["design_check"] = map[string]interface{}{"module": "PyIntLaws", "config": lawsCfg, "lattice_pairs": res.Distinct / 2, "states": res.Distinct, "wall_s": res.Wall.Seconds()}
	}
	sort.Slice(hits, func(i, j int) bool { return hits[i].idx < hits[j].idx })
	for _, h := range hits {
		c := g.cases[h.idx]
		if h.rec.Key == "OOD" || h.rec.Key == "MALFORMED" {
			common.Inconclusive("property=C07 the harness produced a line outside the specification's domain (%s): %+v", h.rec.Key, describe(c, obs[h.idx]))
		}
		d := describe(c, obs[h.idx])
		if e := h.rec.Exp; e != nil {
			ex := map[string]interface{}{"kind": e.K}
			switch e.K {
			case "int":
				ex["value"] = decZ(e.V).String()
			case "pair":
				ex["value"], ex["value2"] = decZ(e.V).String(), decZ(e.V2).String()
			case "bool":
				ex["truth"] = e.T
			case "text":
				ex["text"] = uncodes(e.Txt)
			case "exc":
				ex["exception"] = e.Ename
			}
			d["expected_by_spec"] = ex
		}
		rep.Violation(h.rec.Key, d)
	}

	// 4. evidence
	rep.Evaluations = int64(len(g.cases))
	rep.Distinct = int64(len(g.seen))
	if env.Replay != "" {
		rep.Distinct = 1
	}
	rep.Traces = int64(len(g.cases))
	rep.Rule = "a case is one (operator, in-place?, route, operand values, operand representations, literal spellings | text and base) tuple; duplicates are removed before running, trivial cases do not exist (every line is validated against the specification's exact result)"
	rep.Exhaustive = false
	for i := 0; i < len(g.cases) && i < 5; i++ {
		k := (i*7919 + int(env.Seed)) % len(g.cases)
		rep.Sample(describe(g.cases[k], obs[k]))
	}
	rep.Extra["lattice_values"] = len(g.lat)
	rep.Extra["lines_by_operator"] = opCount
	rep.Extra["lines_by_route"] = viaCount
	rep.Extra["lines_by_observed_kind"] = kindCount
	rep.Extra["lines_by_representation"] = repCount
	rep.Extra["lines_rejected_by_spec"] = len(hits)
	rep.Extra["operands_reread_after_the_operation"] = operandsReread
	rep.Extra["programs_compiled"] = progs
	rep.Extra["cases_dropped_after_timeout"] = total - len(g.cases)
	rep.Extra["run_wall_s"] = runWall
	rep.Extra["tlc_trace_wall_s"] = time.Since(tTLC).Seconds()
	rep.Extra["trace_shards"] = nShards
	rep.Extra["not_covered"] = "left shifts by more than 4096 bits of non-zero values, powers with results beyond 2048 bits (unbounded memory in the subject); int ** negative int and int / int only by class and exception (values belong to C15)"
	rep.Finish()
}
