//go:build verif

// C02: control flow and exceptions take exactly Python's paths; none lost.
//
// spec/C02/PyStmt.tla is a small-step source-level semantics of loops with else, if,
// try/except/else/finally, with, nested calls and return/break/continue/raise/bare raise over
// builtin exception classes. TLC checks the clauses of C02 as invariants of that semantics,
// enumerates every program up to a nesting depth with every choice of run-time inputs (and a
// seeded -simulate sample one level deeper) and prints, per behaviour, the program tree, the
// inputs, the event log, the outcome and the traceback lines it demands.
//
// G binding (this file): every record is rendered to Python source with one fixed template per
// constructor, compiled and run in-process on the real interpreter, and stdout log, outcome class
// and traceback line numbers are compared by equality / membership with what TLC printed.
// Nothing about Python's semantics lives here: a divergence is keyed by the label of the rule of
// the specification that produced the first expectation the run departed from.
package main

import (
	"encoding/json"
	"fmt"
	"os"
	"sort"
	"strconv"
	"strings"
	"sync"
	"sync/atomic"
	"time"

	"gpverif/common"
	"gpverif/pyrun"
)

// ---------------------------------------------------------------------------------------
// records printed by TLC

type CM struct {
	K  int    `json:"k"`
	Er bool   `json:"er"`
	Xs string `json:"xs"`
	Xr bool   `json:"xr"`
}
type Handler struct {
	Cls  []string `json:"cls"`
	As   bool     `json:"as"`
	Body []Stmt   `json:"body"`
	Ln   int      `json:"ln"`
}
type Stmt struct {
	K      string    `json:"k"`
	N      int       `json:"n"`
	E      string    `json:"e"`
	It     string    `json:"it"` // for: "range" | "raising" (KeyError from __next__) | "raisingE" (Exception from __next__)
	Ln     int       `json:"ln"`
	Last   int       `json:"last"`
	Cl     int       `json:"cl"`
	Then   []Stmt    `json:"then"`
	Orelse []Stmt    `json:"orelse"`
	Body   []Stmt    `json:"body"`
	Fin    []Stmt    `json:"fin"`
	Hs     []Handler `json:"hs"`
	Cm     *CM       `json:"cm"`
}
type Out struct {
	T      string  `json:"t"` // norm | ret | exc | syntax
	E      string  `json:"e"`
	Tb     [][]int `json:"tb"` // outermost first; each entry: set of allowed lines (0, -1, -2 symbolic)
	Lab    string  `json:"lab"`
	Origin string  `json:"origin"`
	Next   int     `json:"next"` // line of the statement that follows the raising statement in its block (0: none)
}
type Rec struct {
	Meta   bool     `json:"meta"`
	Prog   []Stmt   `json:"prog"`
	Path   []string `json:"path"`
	Inputs []int    `json:"inputs"`
	Log    []int    `json:"log"`
	Why    []string `json:"why"`
	Out    Out      `json:"out"`
	Where  []string `json:"where"`
	// meta record
	Classes []struct {
		Name   string `json:"name"`
		Parent string `json:"parent"`
		Code   int    `json:"code"`
	} `json:"classes"`
	Lines struct {
		TopCall    int `json:"topcall"`
		EnterRaise int `json:"enterraise"`
		ExitRaise  int `json:"exitraise"`
	} `json:"lines"`
	Contexts []string `json:"contexts"`
	src      string   // "exhaustive" | "simulate"
}

func (r *Rec) id() string {
	return strings.Join(r.Path, "/") + "|" + fmt.Sprint(r.Inputs)
}

// ---------------------------------------------------------------------------------------
// rendering: one template per constructor, one statement per physical line

type prelude struct {
	src       string
	enterLine int // physical line of the raise statement in CM.__enter__
	exitLine  int // physical line of the raise statement in CM.__exit__
	nextLine  int // physical line of the raise statement in IT.__next__
}

// The scaffolding of every program: log(), the input reader nxt(), and the context manager whose
// behaviour is fixed by its constructor arguments, and the iterator IT(n) that yields n items and
// then raises KeyError from __next__. code(t) maps the class handed to __exit__ to the
// int the specification assigns to it (table printed by TLC in the meta record).
func makePrelude(meta *Rec) *prelude {
	L := []string{
		"LOG = []", "IN = [0]", "INV = []", "R = [None]",
		"def log(k):", "    LOG.append(k)",
		"def nxt():", "    i = IN[0]", "    IN[0] = i + 1", "    return INV[i]",
		"def code(t):", "    if t is None:", "        return 0",
	}
	cls := append(meta.Classes[:0:0], meta.Classes...)
	sort.Slice(cls, func(i, j int) bool { return cls[i].Name < cls[j].Name })
	for _, c := range cls {
		if c.Code != 9 {
			L = append(L, "    if t is "+c.Name+":", "        return "+strconv.Itoa(c.Code))
		}
	}
	L = append(L, "    return 9",
		"class CM:", "    def __init__(self, k, er, xs, xr):", "        self.k = k", "        self.er = er", "        self.xs = xs", "        self.xr = xr",
		"    def __enter__(self):", "        LOG.append(self.k)", "        if self.er:", "            raise IndexError()")
	p := &prelude{enterLine: len(L)}
	L = append(L, "        return self", "    def __exit__(self, t, v, tb):", "        LOG.append(self.k + 10 + code(t))", "        if self.xr:",
		"            raise ZeroDivisionError()")
	p.exitLine = len(L)
	L = append(L, "        return self.xs",
		"class IT:", "    def __init__(self, n, c):", "        self.n = n", "        self.c = c", "    def __iter__(self):", "        return self",
		"    def __next__(self):", "        if self.n > 0:", "            self.n = self.n - 1", "            return 0", "        raise self.c()")
	p.nextLine = len(L)
	p.src = strings.Join(L, "\n") + "\n"
	return p
}

var xsLit = map[string]string{"none": "None", "true": "True", "one": "1"}

func pyBool(b bool) string {
	if b {
		return "True"
	}
	return "False"
}

type renderer struct {
	out []string
	err error
}

func (r *renderer) emit(ind, text string, ln int) {
	r.out = append(r.out, ind+text)
	if ln != 0 && ln != len(r.out) && r.err == nil {
		r.err = fmt.Errorf("layout: %q rendered on line %d, the specification says %d", text, len(r.out), ln)
	}
}

func (r *renderer) block(ss []Stmt, ind string) {
	in := ind + "    "
	for i := range ss {
		s := &ss[i]
		switch s.K {
		case "mark":
			r.emit(ind, "log("+strconv.Itoa(s.N)+")", s.Ln)
		case "pass":
			r.emit(ind, "pass", s.Ln)
		case "raise":
			r.emit(ind, "raise "+s.E+"()", s.Ln)
		case "reraise":
			r.emit(ind, "raise", s.Ln)
		case "ret":
			r.emit(ind, "return 'R'", s.Ln)
		case "brk":
			r.emit(ind, "break", s.Ln)
		case "cont":
			r.emit(ind, "continue", s.Ln)
		case "if":
			r.emit(ind, "if nxt():", s.Ln)
			r.block(s.Then, in)
			if len(s.Orelse) > 0 {
				r.emit(ind, "else:", 0)
				r.block(s.Orelse, in)
			}
		case "for", "while":
			if s.K == "for" && s.It == "raising" {
				r.emit(ind, "for i in IT(nxt(), KeyError):", s.Ln)
			} else if s.K == "for" && s.It == "raisingE" {
				r.emit(ind, "for i in IT(nxt(), Exception):", s.Ln)
			} else if s.K == "for" {
				r.emit(ind, "for i in range(nxt()):", s.Ln)
			} else {
				r.emit(ind, "while nxt():", s.Ln)
			}
			r.block(s.Body, in)
			if len(s.Orelse) > 0 {
				r.emit(ind, "else:", 0)
				r.block(s.Orelse, in)
			}
		case "try":
			r.emit(ind, "try:", s.Ln)
			r.block(s.Body, in)
			for j := range s.Hs {
				h := &s.Hs[j]
				hd := "except"
				if len(h.Cls) == 1 {
					hd += " " + h.Cls[0]
				} else if len(h.Cls) > 1 {
					hd += " (" + strings.Join(h.Cls, ", ") + ")"
				}
				if h.As {
					hd += " as e"
				}
				r.emit(ind, hd+":", h.Ln)
				r.block(h.Body, in)
			}
			if len(s.Orelse) > 0 {
				r.emit(ind, "else:", 0)
				r.block(s.Orelse, in)
			}
			if len(s.Fin) > 0 {
				r.emit(ind, "finally:", 0)
				r.block(s.Fin, in)
			}
		case "with":
			r.emit(ind, fmt.Sprintf("with CM(%d, %s, %s, %s):", s.Cm.K, pyBool(s.Cm.Er), xsLit[s.Cm.Xs], pyBool(s.Cm.Xr)), s.Ln)
			r.block(s.Body, in)
			if s.Last != len(r.out) && r.err == nil {
				r.err = fmt.Errorf("layout: with body ends on line %d, the specification says %d", len(r.out), s.Last)
			}
		case "call":
			r.emit(ind, "def g():", s.Ln)
			r.block(s.Body, in)
			r.emit(ind, "g()", s.Cl)
		default:
			if r.err == nil {
				r.err = fmt.Errorf("unknown statement kind %q", s.K)
			}
		}
	}
}

// render returns the unit (function definition, input set-up, the call) and the physical line of the call.
func render(rec *Rec) (string, int, error) {
	r := &renderer{}
	r.emit("", "def f():", 1)
	r.block(rec.Prog, "    ")
	in := make([]string, len(rec.Inputs))
	for i, v := range rec.Inputs {
		in[i] = strconv.Itoa(v)
	}
	r.emit("", "LOG = []", 0)
	r.emit("", "INV = ["+strings.Join(in, ", ")+"]", 0)
	r.emit("", "IN = [0]", 0)
	r.emit("", "R = [None]", 0)
	r.emit("", "R[0] = f()", 0)
	return strings.Join(r.out, "\n") + "\n", len(r.out), r.err
}

const report = "print(LOG)\nprint(R)\n"

// ---------------------------------------------------------------------------------------
// running and comparing

type observed struct {
	Outcome string `json:"outcome"` // as pyrun reports it
	Compile bool   `json:"compile_error"`
	Log     string `json:"log"`
	Ret     string `json:"ret"`
	TB      []int  `json:"tb"`
	Site    string `json:"panic_site,omitempty"`
	Msg     string `json:"msg,omitempty"`
}

type divergence struct {
	Key string
	Obs observed
}

func evKind(v int) string {
	switch m := v % 100; {
	case m < 50:
		return "mark"
	case m == 50:
		return "enter"
	default:
		return "exit"
	}
}

func logText(l []int) string {
	s := make([]string, len(l))
	for i, v := range l {
		s[i] = strconv.Itoa(v)
	}
	return "[" + strings.Join(s, ", ") + "]"
}

func parseLog(s string) ([]int, bool) {
	s = strings.TrimSpace(s)
	if len(s) < 2 || s[0] != '[' || s[len(s)-1] != ']' {
		return nil, false
	}
	s = s[1 : len(s)-1]
	if s == "" {
		return nil, true
	}
	var out []int
	for _, f := range strings.Split(s, ", ") {
		v, err := strconv.Atoi(f)
		if err != nil {
			return nil, false
		}
		out = append(out, v)
	}
	return out, true
}

type worker struct {
	c   *pyrun.Ctx
	pre *prelude
	n   int
}

func newWorker(pre *prelude) *worker {
	w := &worker{c: pyrun.New(), pre: pre}
	if r := w.c.Exec(pre.src, 10*time.Second); r.Outcome() != "ok" {
		common.Inconclusive("property=C02 scaffolding does not run: %s %s %s", r.Outcome(), r.Msg, r.Panic)
	}
	return w
}

func outcomeText(o Out) string {
	if o.T == "exc" {
		return "exc:" + o.E
	}
	return o.T
}

// check runs one behaviour and returns nil if the real interpreter did what the record says.
func (w *worker) check(rec *Rec) (*divergence, error) {
	src, callLine, err := render(rec)
	if err != nil {
		return nil, err
	}
	w.n++
	if w.n%2000 == 0 { // keep the long-lived context small
		w.c.Close()
		*w = *newWorker(w.pre)
	}
	r := w.c.Exec(src, 10*time.Second)
	obs := observed{Outcome: r.Outcome(), Compile: r.CompileErr, TB: r.TBLines, Site: r.PanicSite, Msg: common.TrimKey(r.Msg+r.Panic, 120)}
	div := func(label, kind, detail string) (*divergence, error) {
		return &divergence{Key: "C02|" + label + "|" + kind + "|" + detail, Obs: obs}, nil
	}
	if r.TimedOut {
		w.c = nil
		*w = *newWorker(w.pre)
		return div(rec.Out.Lab, "timeout", "exp="+outcomeText(rec.Out))
	}
	if rec.Out.T == "syntax" {
		if r.CompileErr && r.IsA(rec.Out.E) {
			return nil, nil
		}
		o := "compiled"
		if r.CompileErr {
			o = r.Outcome()
		} else if r.Panic != "" && !strings.HasPrefix(r.PanicSite, "vm.") {
			o = "panic:" + r.PanicSite
		}
		return div("reject", strings.Join(rec.Where, ","), "observed="+o)
	}
	if r.CompileErr {
		return div("compile", "compile-error", "obs="+r.Outcome())
	}
	// the log and the return value, printed by a second unit so that an escaping exception reaches pyrun untouched
	r2 := w.c.Exec(report, 10*time.Second)
	lines := strings.Split(strings.TrimRight(r2.Stdout, "\n"), "\n")
	if r2.Outcome() != "ok" || len(lines) != 2 {
		obs.Log = r2.Stdout
		return div(rec.Out.Lab, "report", "obs="+r2.Outcome())
	}
	obs.Log, obs.Ret = lines[0], lines[1]
	if obs.Log != logText(rec.Log) {
		got, ok := parseLog(obs.Log)
		if !ok {
			return div(rec.Out.Lab, "log", "unparseable")
		}
		i := 0
		for i < len(got) && i < len(rec.Log) && got[i] == rec.Log[i] {
			i++
		}
		label, ek, ok2 := rec.Out.Lab, "end", "end"
		if i < len(rec.Log) {
			label, ek = rec.Why[i], evKind(rec.Log[i])
		}
		if i < len(got) {
			ok2 = evKind(got[i])
		}
		return div(label, "log", "exp="+ek+",obs="+ok2)
	}
	// outcome
	var got string
	switch {
	case r.Panic != "":
		got = "panic:" + r.PanicSite
	case r.Exc != "":
		got = "exc:" + r.Exc
	case obs.Ret == "[None]":
		got = "norm"
	case obs.Ret == "['R']":
		got = "ret"
	default:
		got = "ret:" + common.TrimKey(obs.Ret, 20)
	}
	if got != outcomeText(rec.Out) {
		return div(rec.Out.Lab, "outcome", "exp="+outcomeText(rec.Out)+",obs="+got)
	}
	if rec.Out.T == "exc" {
		exp := rec.Out.Tb
		if len(r.TBLines) != len(exp) {
			return div("tb:"+rec.Out.Origin, "traceback", fmt.Sprintf("entries exp=%d,obs=%d", len(exp), len(r.TBLines)))
		}
		for i, allowed := range exp {
			hit := false
			for _, a := range allowed {
				switch a {
				case 0:
					a = callLine
				case -1:
					a = w.pre.enterLine
				case -2:
					a = w.pre.exitLine
				case -3:
					a = w.pre.nextLine
				}
				if a == r.TBLines[i] {
					hit = true
				}
			}
			if !hit {
				pos := "call-line"
				if i == len(exp)-1 {
					// classify what was observed in the specification's terms, so that a known line defect
					// does not cover a different one
					pos = "raising-line:obs=other"
					if rec.Out.Next != 0 && r.TBLines[i] == rec.Out.Next {
						pos = "raising-line:obs=line-of-following-statement"
					}
				}
				return div("tb:"+rec.Out.Origin, "traceback", pos)
			}
		}
	}
	return nil, nil
}

// ---------------------------------------------------------------------------------------

type stats struct {
	mu       sync.Mutex
	seen     map[string]bool
	labels   map[string]int
	outcomes map[string]int
	leaves   map[string]int
	ctxs     map[string]int
	depth    map[int]int
	bySrc    map[string]int
}

func (s *stats) add(rec *Rec) {
	s.mu.Lock()
	defer s.mu.Unlock()
	s.seen[rec.id()] = true
	for _, l := range rec.Why {
		s.labels[l]++
	}
	s.labels[rec.Out.Lab]++
	s.outcomes[outcomeText(rec.Out)]++
	n := len(rec.Path)
	s.leaves[rec.Path[n-1]]++
	for _, c := range rec.Path[:n-1] {
		s.ctxs[c]++
	}
	s.depth[n-1]++
	s.bySrc[rec.src]++
}

func main() {
	env := common.Setup()
	rep := common.NewReport(env, "model_checking")
	rep.Rule = "a case is one behaviour = (program tree, input sequence) emitted by TLC from spec/C02/PyStmt.tla with its event log, outcome and traceback lines; distinct = distinct (context path, leaf, inputs); every case executes at least one compound statement around an exit statement on the real interpreter"
	rep.Assumptions = []string{
		"TLC and the CommunityModules Json module are correct",
		"the rendering templates (one per constructor, harness/cmd/c02/main.go) mean what the constructor names say; the layout is cross-checked against the line numbers the specification computes",
		"the scaffolding (print of int lists, list append, global rebinding, `is` on classes, a class with __enter__/__exit__) works in gpython; it is exercised by every case",
		"exception classes are builtin ones (gpython cannot define exception classes)",
	}
	var meta *Rec
	var pre *prelude
	metaReady := make(chan struct{})
	var metaOnce sync.Once
	st := &stats{seen: map[string]bool{}, labels: map[string]int{}, outcomes: map[string]int{}, leaves: map[string]int{}, ctxs: map[string]int{}, depth: map[int]int{}, bySrc: map[string]int{}}
	var nCases, nUnrepro, nTimeouts, nSkipped int64
	var layoutErr atomic.Value

	runOne := func(w *worker, rec *Rec) {
		// a run that timed out leaves a goroutine behind that cannot be killed: after a few of them the
		// remaining cases are skipped (the time-outs themselves are divergences and are reported)
		if atomic.LoadInt64(&nTimeouts) >= 3 {
			atomic.AddInt64(&nSkipped, 1)
			return
		}
		d, err := w.check(rec)
		if err != nil {
			layoutErr.Store(err.Error())
			return
		}
		atomic.AddInt64(&nCases, 1)
		st.add(rec)
		if d == nil {
			return
		}
		if strings.Contains(d.Key, "|timeout|") {
			atomic.AddInt64(&nTimeouts, 1)
		}
		// re-run once in a fresh context: the long-lived context carries state from earlier programs
		fw := newWorker(pre)
		d2, _ := fw.check(rec)
		fw.c.Close()
		if d2 == nil || d2.Key != d.Key {
			atomic.AddInt64(&nUnrepro, 1)
			fmt.Printf("unreproduced divergence %s on %s\n", d.Key, rec.id())
			return
		}
		src, _, _ := render(rec)
		rep.Violation(d.Key, map[string]interface{}{"path": rec.Path, "inputs": rec.Inputs, "source": src,
			"expected": map[string]interface{}{"log": rec.Log, "outcome": rec.Out}, "observed": d.Obs, "record": rec})
	}

	if env.Replay != "" {
		b, err := os.ReadFile(env.Replay)
		if err != nil {
			common.Inconclusive("property=C02 replay: %v", err)
		}
		var f struct {
			Case struct {
				Record *Rec `json:"record"`
			} `json:"case"`
			Meta *Rec `json:"meta"`
		}
		if err := json.Unmarshal(b, &f); err != nil || f.Case.Record == nil {
			common.Inconclusive("property=C02 replay file does not hold a record: %v", err)
		}
		// the scaffolding table comes from the specification: ask TLC for the meta record only
		env.MustTLC(common.TLCRun{Dir: "C02", Module: "PyStmt", Config: "meta.cfg", Timeout: 5 * time.Minute, OnLine: func(b []byte) {
			var m Rec
			if json.Unmarshal(b, &m) == nil && m.Meta {
				meta = &m
			}
		}})
		if meta == nil {
			common.Inconclusive("property=C02 no meta record")
		}
		pre = makePrelude(meta)
		src, _, _ := render(f.Case.Record)
		fmt.Print(src)
		runOne(newWorker(pre), f.Case.Record)
		rep.Finish()
	}

	jobs := make(chan *Rec, 8192)
	var wg sync.WaitGroup
	nw := env.Workers/2 + 1
	for i := 0; i < nw; i++ {
		wg.Add(1)
		go func() {
			defer wg.Done()
			<-metaReady
			w := newWorker(pre)
			defer w.c.Close()
			for rec := range jobs {
				runOne(w, rec)
			}
		}()
	}
	var sampleN int64
	onLine := func(src string) func([]byte) {
		return func(b []byte) {
			rec := &Rec{src: src}
			if err := json.Unmarshal(b, rec); err != nil {
				common.Inconclusive("property=C02 record does not parse: %v: %.200s", err, b)
			}
			if rec.Meta {
				metaOnce.Do(func() {
					meta = rec
					pre = makePrelude(rec)
					close(metaReady)
				})
				return
			}
			if n := atomic.AddInt64(&sampleN, 1); n%997 == 1 {
				s, _, _ := render(rec)
				rep.Sample(map[string]interface{}{"path": rec.Path, "inputs": rec.Inputs, "log": rec.Log, "outcome": outcomeText(rec.Out), "tb": rec.Out.Tb, "source": s})
			}
			jobs <- rec
		}
	}

	invariants := "TypeOK CleanupOnce HandlerFirstMatch NoneLost HandledStack EscapeIntact FinalOK RejectedNeverRuns + deadlock"
	genCfg, simCfg := "gen_quick.cfg", "sim3.cfg"
	simTraces, simDepth := 1200, 400
	if env.Thorough() {
		genCfg, simCfg = "gen_thorough.cfg", "sim4.cfg"
		simTraces = 8000
	}
	const simWorkers = 4 // fixed so that the sample depends on VERIF_SEED only
	tlcInfo := map[string]interface{}{}
	var tmu sync.Mutex
	runTLC := func(name string, run common.TLCRun) {
		res := env.MustTLC(run)
		if len(res.Violations) > 0 || !res.Finished {
			common.Inconclusive("property=C02 %s: the specification's own invariants do not hold or TLC did not finish: %v\n%s", name, res.Violations, res.Stdout)
		}
		rep.AddTLC(res)
		tmu.Lock()
		tlcInfo[name] = map[string]interface{}{"config": run.Config, "states": res.Distinct, "generated": res.Generated, "records": res.Records, "wall_s": res.Wall.Seconds(), "invariants": invariants}
		tmu.Unlock()
		fmt.Printf("tlc %s done at %.1fs: %d states, %d records\n", name, time.Since(env.Start).Seconds(), res.Distinct, res.Records)
	}
	var tw sync.WaitGroup
	tw.Add(2)
	go func() {
		defer tw.Done()
		runTLC("exhaustive", common.TLCRun{Dir: "C02", Module: "PyStmt", Config: genCfg, Timeout: 25 * time.Minute, OnLine: onLine("exhaustive")})
	}()
	go func() {
		defer tw.Done()
		runTLC("simulate", common.TLCRun{Dir: "C02", Module: "PyStmt", Config: simCfg, Simulate: "num=" + strconv.Itoa(simTraces/simWorkers), Depth: simDepth,
			Workers: simWorkers, Seed: env.Seed, Timeout: 25 * time.Minute, OnLine: onLine("simulate")})
	}()
	tw.Wait()
	close(jobs)
	wg.Wait()
	if e := layoutErr.Load(); e != nil {
		common.Inconclusive("property=C02 rendering disagrees with the specification's layout: %v", e)
	}
	if meta == nil || nCases == 0 {
		common.Inconclusive("property=C02 TLC printed no behaviour")
	}
	if nUnrepro > 0 {
		common.Inconclusive("property=C02 %d divergences did not reproduce in a fresh context", nUnrepro)
	}
	if nSkipped > 0 {
		fmt.Printf("%d cases skipped after %d time-outs\n", nSkipped, nTimeouts)
		rep.Extra["skipped_after_timeouts"] = nSkipped
	}
	rep.Evaluations = nCases
	rep.Traces = nCases
	rep.Distinct = int64(len(st.seen))
	rep.Exhaustive = nSkipped == 0 // within the stated depth bound; the simulate part is a sample
	rep.Extra["tlc"] = tlcInfo
	rep.Extra["bounds"] = map[string]interface{}{"exhaustive_config": genCfg, "simulate_config": simCfg, "simulate_traces": simTraces,
		"note": "exhaustive = all programs with <= Depth nested compound contexts around one leaf, all inputs (first MaxIn free); simulate = seeded sample at the next depth"}
	rep.Extra["rule_labels_exercised"] = st.labels
	rep.Extra["expected_outcomes"] = st.outcomes
	rep.Extra["leaves"] = st.leaves
	rep.Extra["contexts"] = st.ctxs
	rep.Extra["cases_by_depth"] = st.depth
	rep.Extra["cases_by_source"] = st.bySrc
	// vacuity: every context and every leaf of the specification must have been exercised
	for _, c := range metaContexts(meta) {
		if st.ctxs[c] == 0 && nSkipped == 0 {
			common.Inconclusive("property=C02 context %s never exercised", c)
		}
	}
	rep.Finish()
}

func metaContexts(m *Rec) []string {
	// contexts are printed by the meta record as a JSON array under "contexts"
	return m.Contexts
}
