---- MODULE PyScope ----
\* Name resolution of Python 3.4 as a specification over whole programs (property C03).
\*
\* A PROGRAM is a sequence P of scope records, index = scope id in textual (pre-)order, P[1] the
\* module:   [kind, parent, par, iter, tgt, ev]
\*   kind   "module" | "def" | "lambda" | "class" | "comp" (a list comprehension)
\*   parent enclosing scope (0 for the module)
\*   par    Names -> [k, from]   parameter modes of def/lambda:  k = "-" no parameter, "arg" plain
\*          parameter (every call passes a value), "dup" the parameter is written twice (illegal),
\*          "dflt" parameter with default value `from` -- a NAME evaluated in the DEFINING scope when
\*          the def/lambda is executed (calls do not pass it)
\*   iter   comp only: "-" = the first iterable is a two-element literal, else the name n whose value
\*          (looked up in the ENCLOSING scope, before the comprehension scope is entered) is the only item
\*   tgt    comp only: "-" = neutral loop variable, else the name bound by the `for` clause
\*   ev     the body: a sequence of events [op, n, c]
\*            statement scopes (module/def/class):
\*              bind n   n = '<fresh tag>'           use n   log the value of n
\*              del n    del n                       global n / nonlocal n   the declarations
\*              child c  the definition of scope c (def: creates the function; class: runs the body;
\*                       lambda: creates it and binds it to a private name; comp: evaluates it)
\*              call c   calls the def/lambda child c defined in this scope
\*              locset n (class only) locals()['n'] = '<fresh tag>'
\*              supref   (def only) mentions the name `super` without calling it
\*            the name __class__ (when it is in Names) is only ever USED, in def/lambda/comp scopes;
\*            its value is logged as the name of the class object
\*            expression scopes (lambda body, comp element):  use n;  child c (lambda: created and
\*              called at once; comp: evaluated)
\*          every event of a statement scope is guarded `try: ... except NameError: log 'NameError'`.
\*          Every function object (def or lambda) is registered when created; after the module body
\*          all functions registered so far are called once more (closures outliving their frames).
\*
\* The module gives  (1) pass 1: the def-use flags of every block (Blocks),  (2) Reject: the
\* compile-time rejections C03 lists,  (3) the classification (PyScopeD.ClassTable),  (4) Run: the
\* dynamic semantics -- frames, cells shared by all closures of one activation, class namespaces
\* invisible to nested code, comprehension scopes, defaults evaluated once -- producing the log.
EXTENDS PyScopeD
CONSTANT NameSeq      \* the names in rendering order; Names = Range(NameSeq)

UNB == "<unbound>"
NERR == "NameError"
NoPar == [k |-> "-", from |-> "-"]
BlockType(k) == IF k = "module" THEN "module" ELSE IF k = "class" THEN "class" ELSE "function"
StmtKind(k) == k \in {"module", "def", "class"}
Ev(op, n, c) == [op |-> op, n |-> n, c |-> c]

\* ---------------------------------------------------------------- pass 1: def-use flags
\* what event i of scope s contributes to name n IN SCOPE s ("L" binding, "U" use)
EvDefs(P, s, i, n) ==
  LET e == P[s].ev[i] IN
  IF e.op \in {"bind", "del"} /\ e.n = n THEN {"L"}
  ELSE IF e.op = "use" /\ e.n = n THEN {"U"}
  ELSE IF e.op = "supref" /\ n = CLS THEN {"U"}        \* the name `super` in a function block counts as a use of __class__
  ELSE IF e.op = "child" THEN
       \* defaults and the first iterable are evaluated in the defining scope
       (IF (\E m \in Names : P[e.c].par[m].k = "dflt" /\ P[e.c].par[m].from = n) \/ P[e.c].iter = n THEN {"U"} ELSE {})
  ELSE {}
Flags1(P, s, n) ==
     (IF P[s].par[n].k # "-" THEN {"P"} ELSE {})
  \cup (IF P[s].tgt = n THEN {"L"} ELSE {})
  \cup UNION { EvDefs(P, s, i, n) : i \in 1..Len(P[s].ev) }
  \cup (IF \E i \in 1..Len(P[s].ev) : P[s].ev[i].op = "global" /\ P[s].ev[i].n = n THEN {"G"} ELSE {})
  \cup (IF \E i \in 1..Len(P[s].ev) : P[s].ev[i].op = "nonlocal" /\ P[s].ev[i].n = n THEN {"N"} ELSE {})
Blocks(P) == WithModuleGlobals(TLCEval([s \in 1..Len(P) |->
                [type |-> BlockType(P[s].kind), parent |-> P[s].parent, flags |-> TLCEval([n \in Names |-> Flags1(P, s, n)])]]))

\* ---------------------------------------------------------------- compile-time rejections
DupParam(P) == \E s \in 1..Len(P) : \E n \in Names : P[s].par[n].k = "dup"
\* a name is used or assigned before its global/nonlocal declaration in the same block
DeclAfterUse(P) == \E s \in 1..Len(P) : \E i \in 1..Len(P[s].ev) :
     /\ P[s].ev[i].op \in {"global", "nonlocal"}
     /\ \E j \in 1..(i - 1) : EvDefs(P, s, j, P[s].ev[i].n) # {}
RejectWhy(P) == IF DupParam(P) THEN "dup-param"
                ELSE IF DeclAfterUse(P) THEN "decl-after-use"
                ELSE IF AnyErrorD(Blocks(P)) THEN "bad-declaration"
                ELSE ""

\* ---------------------------------------------------------------- dynamic semantics
\* machine state  st = [glob, cells, log, org, fns, bad]
\*   glob  Names -> value       module namespace (builtins never define the names)
\*   cells sequence of values   the heap of cells; a cell is its index
\*   log   sequence of values   what the program logged;  org: per entry, which rule produced it
\*   fns   registered function objects [sc, cl, df]: scope, captured cells (Names -> cell, 0 = none),
\*         default values
\*   bad   an internal inconsistency of this specification (must never become TRUE)
\* frame  fr = [loc, cl, fn]
\*   loc   Names -> value   fast locals of a function-like scope / the namespace of a class body
\*   cl    Names -> cell    cells of this activation (own CELL variables and captured FREE ones)
\*   fn    scope -> function object or NoFn   the private names the child definitions are bound to
NoFn == [sc |-> 0, cl |-> TLCEval([n \in Names |-> 0]), df |-> TLCEval([n \in Names |-> UNB])]
St0 == [glob |-> TLCEval([n \in Names |-> UNB]), cells |-> <<>>, log |-> <<>>, org |-> <<>>, fns |-> <<>>, bad |-> FALSE]
NoFns(P) == TLCEval([c \in 1..Len(P) |-> NoFn])
Fr0(P) == [loc |-> TLCEval([n \in Names |-> UNB]), cl |-> TLCEval([n \in Names |-> 0]), fn |-> NoFns(P)]
Tag(pre, s, i) == pre \o ToString(s) \o "." \o ToString(i)
LogV(st, v, o) == [st EXCEPT !.log = Append(@, v), !.org = Append(@, o)]
CellVal(st, k) == IF k \in 1..Len(st.cells) THEN st.cells[k] ELSE UNB

\* a block CAPTURES the cell of n from its defining scope when n is free in it, or when it is a class
\* block that lies between a free reference and its binder although the class itself binds n or
\* declares it global (the class body is skipped by the reference, but must hand the cell down)
Captures(B, b, n) == \/ ClassifyD(B, b, n) = FREE
                     \/ (B[b].type = "class" /\ \E d \in Desc(B, b) : RefersFree(B, d, n) /\ Binder(B, d, n) \in AncSet(B, b))
Tables(B) == [cls |-> ClassTable(B), clscell |-> TLCEval([b \in 1..Len(B) |-> ClsCell(B, b)]), cap |-> TLCEval([b \in 1..Len(B) |-> TLCEval([n \in Names |-> Captures(B, b, n)])])]
\* the value a LOAD of n in scope s yields (UNB = NameError); C = Tables(Blocks(P))
LoadN(P, C, s, n, st, fr) ==
  LET k == P[s].kind  c == C.cls[s][n] IN
  IF k = "module" THEN st.glob[n]
  ELSE IF k = "class" THEN
       IF c = GE THEN st.glob[n]
       ELSE IF fr.loc[n] # UNB THEN fr.loc[n]               \* the class namespace first
       ELSE IF c = FREE THEN CellVal(st, fr.cl[n])          \* then the enclosing function's cell
       ELSE st.glob[n]                                      \* else the module (never an enclosing function)
  ELSE IF c = LOC THEN fr.loc[n]
  ELSE IF c \in {CELL, FREE} THEN CellVal(st, fr.cl[n])
  ELSE st.glob[n]
\* where a STORE / DELETE of n in scope s goes
SlotKind(P, C, s, n) ==
  LET k == P[s].kind  c == C.cls[s][n] IN
  IF k = "module" THEN "glob"
  ELSE IF c = GE THEN "glob"
  ELSE IF k = "class" THEN (IF c = FREE THEN "cell" ELSE "loc")
  ELSE IF c \in {CELL, FREE} THEN "cell"
  ELSE IF c = LOC THEN "loc" ELSE "none"
SlotVal(P, C, s, n, st, fr) ==
  LET sk == SlotKind(P, C, s, n) IN
  IF sk = "glob" THEN st.glob[n] ELSE IF sk = "cell" THEN CellVal(st, fr.cl[n]) ELSE fr.loc[n]
\* X = [st, fr, exc]
SetSlot(P, C, s, n, v, X) ==
  LET sk == SlotKind(P, C, s, n) IN
  IF sk = "glob" THEN [X EXCEPT !.st.glob[n] = v]
  ELSE IF sk = "cell" THEN (IF X.fr.cl[n] \in 1..Len(X.st.cells) THEN [X EXCEPT !.st.cells[X.fr.cl[n]] = v]
                            ELSE [X EXCEPT !.st.bad = TRUE])
  ELSE IF sk = "loc" THEN [X EXCEPT !.fr.loc[n] = v]
  ELSE [X EXCEPT !.st.bad = TRUE]
\* origin label of a log entry: which resolution rule was exercised (partition of findings)
Org(P, C, s, n, what) == what \o (IF n = CLS THEN "(__class__)" ELSE "") \o ":" \o P[s].kind \o "/" \o C.cls[s][n]

\* function object for child c created in scope s with frame fr: captures the CELLS (not the values)
\* of every name that is free in c; the default values dv
Closure(P, C, c, fr, dv) == [sc |-> c, cl |-> TLCEval([n \in Names |-> IF C.cap[c][n] THEN fr.cl[n] ELSE 0]), df |-> dv]
ClosureOk(P, C, c, fr) == \A n \in Names : C.cap[c][n] => fr.cl[n] # 0

\* new activation of function-like scope clo.sc: parameters from the call / the defaults, one NEW
\* cell per CELL variable (initialised from the parameter if it is one), FREE cells from the closure
NewFrame(P, C, clo, argtag, st) ==
  LET c == clo.sc
      pv == TLCEval([n \in Names |-> IF P[c].par[n].k = "arg" THEN argtag ELSE IF P[c].par[n].k = "dflt" THEN clo.df[n] ELSE UNB])
      cellNames == SelectSeq(NameSeq, LAMBDA n : C.cls[c][n] = CELL)
      idx(n) == Len(st.cells) + (CHOOSE i \in 1..Len(cellNames) : cellNames[i] = n)
  IN [st |-> IF cellNames = <<>> THEN st ELSE [st EXCEPT !.cells = @ \o TLCEval([i \in 1..Len(cellNames) |-> pv[cellNames[i]]])],
      fr |-> [loc |-> TLCEval([n \in Names |-> IF C.cls[c][n] = CELL THEN UNB ELSE pv[n]]),
              cl |-> TLCEval([n \in Names |-> IF C.cls[c][n] = CELL THEN idx(n) ELSE IF C.cap[c][n] THEN clo.cl[n] ELSE 0]),
              fn |-> NoFns(P)]]

RECURSIVE RunBody(_, _, _, _), DoEvent(_, _, _, _, _), CallFn(_, _, _, _, _), EvalComp(_, _, _, _, _), Define(_, _, _, _, _)

\* call of function object clo: returns [st, exc]
CallFn(P, C, clo, argtag, st) ==
  LET nf == NewFrame(P, C, clo, argtag, st)
      R == RunBody(P, C, clo.sc, [st |-> nf.st, fr |-> nf.fr, exc |-> FALSE])
  IN [st |-> R.st, exc |-> R.exc]

\* comprehension c evaluated from scope s (frame X.fr): first iterable outside, the rest inside
EvalComp(P, C, s, c, X) ==
  LET itv == IF P[c].iter = "-" THEN "ok" ELSE LoadN(P, C, s, P[c].iter, X.st, X.fr)
      items == IF P[c].iter = "-" THEN << "i" \o ToString(c) \o "a", "i" \o ToString(c) \o "b" >> ELSE << itv >>
  IN IF itv = UNB THEN [X EXCEPT !.exc = TRUE]
     ELSE IF ~ClosureOk(P, C, c, X.fr) THEN [X EXCEPT !.st.bad = TRUE]
     ELSE LET nf == NewFrame(P, C, Closure(P, C, c, X.fr, NoFn.df), UNB, X.st)
              Y0 == [st |-> nf.st, fr |-> nf.fr, exc |-> FALSE]
              Y1 == FoldLeft(LAMBDA Y, item :
                        IF Y.exc THEN Y
                        ELSE RunBody(P, C, c, IF P[c].tgt = "-" THEN Y ELSE SetSlot(P, C, c, P[c].tgt, item, Y)),
                      Y0, items)
          IN [X EXCEPT !.st = Y1.st, !.exc = Y1.exc]

\* the definition of child c at event i of scope s
Define(P, C, s, i, X) ==
  LET c == P[s].ev[i].c
      k == P[c].kind
      dn == SelectSeq(NameSeq, LAMBDA n : P[c].par[n].k = "dflt")
      dvs == TLCEval([n \in Names |-> IF P[c].par[n].k = "dflt" THEN LoadN(P, C, s, P[c].par[n].from, X.st, X.fr) ELSE UNB])
      dfail == \E j \in 1..Len(dn) : dvs[dn[j]] = UNB
  IN IF k = "comp" THEN EvalComp(P, C, s, c, X)
     ELSE IF dfail THEN [X EXCEPT !.exc = TRUE]                 \* a default is evaluated when the def is executed
     ELSE IF ~ClosureOk(P, C, c, X.fr) THEN [X EXCEPT !.st.bad = TRUE]
     ELSE LET clo == Closure(P, C, c, X.fr, dvs) IN
          IF k = "class" THEN      \* the body runs now, in a namespace of its own
               \* a class whose nested code refers to __class__ owns a new, still empty cell for it;
               \* the cell receives the class object when the body has finished
               LET own == C.clscell[c]
                   k0 == Len(X.st.cells) + 1
                   st0 == IF own THEN [X.st EXCEPT !.cells = Append(@, UNB)] ELSE X.st
                   cl0 == IF own THEN [clo.cl EXCEPT ![CLS] = k0] ELSE clo.cl
                   R == RunBody(P, C, c, [st |-> st0, exc |-> FALSE,
                                         fr |-> [loc |-> NoFn.df, cl |-> cl0, fn |-> NoFns(P)]])
                   st1 == IF own THEN [R.st EXCEPT !.cells[k0] = "C" \o ToString(c)] ELSE R.st
               IN [X EXCEPT !.st = st1, !.exc = R.exc]
          ELSE LET X1 == [X EXCEPT !.st.fns = Append(@, clo), !.fr.fn[c] = clo] IN
               IF k = "lambda" /\ ~StmtKind(P[s].kind)
               THEN LET R == CallFn(P, C, clo, Tag("a", s, i), X1.st) IN [X1 EXCEPT !.st = R.st, !.exc = R.exc]
               ELSE X1

DoEvent(P, C, s, i, X) ==
  LET e == P[s].ev[i]  stmt == StmtKind(P[s].kind) IN
  IF X.exc THEN X
  ELSE LET Y ==
       CASE e.op = "bind" -> SetSlot(P, C, s, e.n, Tag("b", s, i), X)
         [] e.op = "locset" -> [X EXCEPT !.fr.loc[e.n] = Tag("k", s, i)]
         [] e.op = "use" -> LET v == LoadN(P, C, s, e.n, X.st, X.fr) IN
                            IF v = UNB THEN [X EXCEPT !.exc = TRUE]
                            ELSE [X EXCEPT !.st = LogV(@, v, Org(P, C, s, e.n, "use") \o
                                       (IF P[s].kind = "class" /\ X.fr.loc[e.n] # UNB THEN "+ns" ELSE ""))]
         [] e.op = "del" -> IF SlotVal(P, C, s, e.n, X.st, X.fr) = UNB THEN [X EXCEPT !.exc = TRUE]
                            ELSE SetSlot(P, C, s, e.n, UNB, X)
         [] e.op = "child" -> Define(P, C, s, i, X)
         [] e.op = "call" -> LET clo == X.fr.fn[e.c] IN
                             IF clo.sc = 0 THEN [X EXCEPT !.exc = TRUE]      \* the definition failed: the private name is unbound
                             ELSE LET R == CallFn(P, C, clo, Tag("a", s, i), X.st) IN [X EXCEPT !.st = R.st, !.exc = R.exc]
         [] OTHER -> X        \* global / nonlocal: declarations only
       IN IF stmt /\ Y.exc
          THEN [Y EXCEPT !.exc = FALSE,
                         !.st = LogV(@, NERR, IF e.op \in {"use", "del"} THEN Org(P, C, s, e.n, e.op) ELSE e.op \o ":" \o P[s].kind)]
          ELSE Y

RunBody(P, C, s, X) == FoldLeft(LAMBDA Y, i : DoEvent(P, C, s, i, Y), X, [i \in 1..Len(P[s].ev) |-> i])

\* the whole program: module body, then every function registered so far is called once more
Run(P) ==
  LET C == Tables(Blocks(P))
      R1 == RunBody(P, C, 1, [st |-> St0, fr |-> Fr0(P), exc |-> FALSE])
      n0 == Len(R1.st.fns)
      R2 == FoldLeft(LAMBDA st, j : LET R == CallFn(P, C, R1.st.fns[j], "e", st) IN
                                    IF R.exc THEN LogV(R.st, NERR, "epilogue") ELSE R.st,
                     R1.st, [j \in 1..n0 |-> j])
  IN R2

\* ---------------------------------------------------------------- what the harness is given
\* the specification's own consistency: the transcribed algorithm, in the canonical and in the
\* reversed order, gives the declarative classification
AlgAgrees(P) ==
  LET B == Blocks(P)
      rev == [i \in 1..Len(NameSeq) |-> NameSeq[Len(NameSeq) + 1 - i]]
      ok(r) == IF AnyErrorD(B) THEN r.err # "" ELSE r.err = "" /\ \A b \in 1..Len(B) : r.res[b] = ClassTable(B)[b]
  IN ok(Analyze(B, UniformOrd(B, NameSeq))) /\ ok(Analyze(B, UniformOrd(B, rev)))
FlagRank(a) == CASE a = "G" -> 1 [] a = "L" -> 2 [] a = "N" -> 3 [] a = "P" -> 4 [] OTHER -> 5
Expect(P) ==
  LET why == RejectWhy(P) B == Blocks(P) IN
  IF why # "" THEN [p |-> P, reject |-> TRUE, why |-> why, cls |-> <<>>, cap |-> <<>>, clscell |-> <<>>, flags |-> <<>>, log |-> <<>>, org |-> <<>>,
                    specok |-> (why # "bad-declaration" \/ AlgAgrees(P))]
  ELSE LET R == Run(P) IN
       [p |-> P, reject |-> FALSE, why |-> "", cls |-> ClassTable(B), cap |-> Tables(B).cap, clscell |-> Tables(B).clscell,
        flags |-> [b \in 1..Len(B) |-> [n \in Names |-> SetToSortSeq(B[b].flags[n], LAMBDA a, b2 : FlagRank(a) < FlagRank(b2))]],
        log |-> R.log, org |-> R.org, specok |-> (~R.bad /\ AlgAgrees(P))]
====
