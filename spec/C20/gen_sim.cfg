SPECIFICATION GSpec
CONSTANTS
  Kinds <- Alphabet
  MaxItems = 6
  Simulating = TRUE
INVARIANTS TypeOK OnceInOrder PromptClause NotEarly EchoClause Emit
CHECK_DEADLOCK FALSE
