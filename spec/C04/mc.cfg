SPECIFICATION Spec
CONSTANTS
  NChunks = 16
  SigLimit = 0
INVARIANT DesignOk
CHECK_DEADLOCK FALSE
