SPECIFICATION Spec
INVARIANT Emit
CHECK_DEADLOCK FALSE
