\* design check only (thorough): NonInterference on every interleaving of the component-related family (<=2, <=2, 0);
\* nothing is exported - the replay uses the (<=2, <=1, 0) family, all (1,1,1) assignments and the samples
SPECIFICATION Spec
CONSTANTS
  Ctx = {"c1", "c2", "c3"}
  Shared = FALSE
  MaxLens <- ML220
  OnlyRelated = TRUE
  Seeds <- MCSeeds
  Cases <- MCCases
  Policies <- Both
  Configs <- AllConfigs
  ConfigDepth = 0
INVARIANTS NonInterference FinalEqualsSolo
CHECK_DEADLOCK FALSE
