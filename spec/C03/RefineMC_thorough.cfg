SPECIFICATION SpecMC
CONSTANT Names = {"x", "y"}
CONSTANT NameSeq <- Seq2
CONSTANT Shapes <- ShapesQ
CONSTANT FlagsX <- FX3
CONSTANT FlagsY <- FY3
INVARIANT RefinesD
CHECK_DEADLOCK FALSE
