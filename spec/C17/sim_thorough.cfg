\* thorough: seeded random histories of 12 statements (tlc -simulate)
\* the placeholder of Provided is replaced at run time by "<kind>.<method or operator>" for everything the live gpython types provide
SPECIFICATION SimSpec
CONSTANTS
  Configs <- SimThoroughConfigs
  Provided = {@PROVIDED@}
  EmitAll = FALSE
VIEW View
INVARIANTS WellFormed AliasVisibility LastObsIsHeap Bounded EmitFinal
CHECK_DEADLOCK FALSE
