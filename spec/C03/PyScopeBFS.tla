---- MODULE PyScopeBFS ----
\* Exhaustive driver: every program within the bounds, each emitted once with its expectation.
EXTENDS PyScopeGen
VARIABLES g, phase
Seq1 == <<"x">>
Seq2 == <<"x", "y">>
Init == g = G0 /\ phase = "build"
Grow == /\ phase = "build" /\ ~MonoReject(g.prog)
        /\ \E h \in Succ(g) : g' = h
        /\ UNCHANGED phase
Emit == /\ phase = "build" /\ Len(g.stack) = 1
        /\ PrintT(ToJson(Expect(g.prog)))
        /\ phase' = "done" /\ UNCHANGED g
Next == Grow \/ Emit
Spec == Init /\ [][Next]_<<g, phase>>
====
