\* yield from is transparent: delegating templates side by side with their in-place forms, 6 calls each
SPECIFICATION SpecLock
CONSTANTS
  NTop = 2
  MaxOps = 12
  NB = 14
  MaxMicro = 80
  Bodies <- BWithInline
  SendVals <- SendThorough
  TopChoices <- LockTops
INVARIANTS TypeOK Transparent DoneAbsorbing SendCreated Quiescent
CHECK_DEADLOCK FALSE
