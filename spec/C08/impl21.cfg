\* implementation-shaped model (Shared = TRUE): TLC prints where behaviours leave NonInterference
SPECIFICATION Spec
CONSTANTS
  Ctx = {"c1", "c2"}
  Shared = TRUE
  MaxLens <- ML21
  ScriptSet <- MCScripts
  Policies <- One
ACTION_CONSTRAINT LeakWitness
CHECK_DEADLOCK FALSE
