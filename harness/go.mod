module gpverif

go 1.18

require github.com/go-python/gpython v0.0.0

replace github.com/go-python/gpython => /repo
