\* design check, thorough tier: lengths 0..7, components None, -9..9, BIG
SPECIFICATION Spec
CONSTANTS
  MaxLen = 7
  IdxMax = 9
  MaxRhs = 4
  Wide = TRUE
  CmpLen = 4
INVARIANTS PosAgree PosInRange PosMaximal GetAgree SimpleIsSubSeq DelAgree SetAgree SelfAssign RangeAgree OrderLaws
CHECK_DEADLOCK FALSE
