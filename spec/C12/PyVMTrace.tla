---- MODULE PyVMTrace ----
(***************************************************************************)
(* Dynamic part of C12 (trace validation).  Every line of traces.ndjson is *)
(* the execution of one frame of the real VM, recorded before each         *)
(* instruction fetch: offset, tags of the values on the real stack, the    *)
(* real block stack; and how the frame was left.  The set S of model       *)
(* states consistent with the observations so far (subset construction:    *)
(* the real values are more concrete than the model's tags) must never     *)
(* become empty: the real VM only takes steps of PyVM!Succ, so the depths  *)
(* of stack and block stack it reaches at each instruction are those of a  *)
(* reachable model state.  The observed stack depth is also compared with  *)
(* co_stacksize directly.                                                  *)
(***************************************************************************)
EXTENDS PyVM

Traces == ndJsonDeserialize("traces.ndjson")
NT == Len(Traces)

VARIABLES tid, i, S, fin, rk
tvars == <<tid, i, S, fin, rk>>
Tr == Traces[tid]

\* a model tag against the tag of the value found on the real stack
Compat(m, r) ==
  CASE m.k = "V" -> TRUE
    [] m.k = "N" -> r = "N"
    [] m.k \in {"KC", "KS", "KT"} -> TRUE
    [] m.k = "W" -> r = "I" \o ToString(m.t)
    [] m.k = "R" -> TRUE
    [] m.k = "ET" -> r = "ET"
    [] m.k = "EV" -> TRUE
    [] m.k = "TB" -> r \in {"TB", "N", "nil"}
    [] OTHER -> FALSE
BlocksMatch(r, ev) ==
  /\ Len(r.blk) = Len(ev.blk)
  /\ \A j \in 1..Len(r.blk) : r.blk[j].t = ev.blk[j].t /\ r.blk[j].l = ev.blk[j].l /\ (r.blk[j].t = "H" \/ r.blk[j].h = ev.blk[j].h)
Matches(r, ev) ==
  /\ r.ph = "run" /\ r.pc = ev.pc
  /\ Len(r.stk) = Len(ev.tags)
  /\ \A j \in 1..Len(r.stk) : Compat(r.stk[j], ev.tags[j])
  /\ BlocksMatch(r, ev)

Entry == [pc |-> 0, stk |-> <<>>, blk |-> <<>>, ph |-> "run"]
AllSucc == UNION { Succ(Tr.cid, s.pc, s.stk, s.blk) : s \in S }
\* why no successor in P matches the observation ev (only for the report)
RejectKind(P, ev) ==
  IF \A r \in P : r.ph # "run" \/ r.pc # ev.pc THEN "pc"
  ELSE IF \A r \in P : r.ph # "run" \/ r.pc # ev.pc \/ Len(r.stk) # Len(ev.tags) THEN "depth"
  ELSE IF \A r \in P : r.ph # "run" \/ r.pc # ev.pc \/ Len(r.stk) # Len(ev.tags) \/ ~BlocksMatch(r, ev) THEN "blocks"
  ELSE "tags"

Init == /\ tid \in 1..NT /\ i = 0 /\ fin = FALSE /\ S = {Entry} /\ rk = ""
\* the first event must be the frame entry
First == /\ ~fin /\ i = 0 /\ Len(Tr.ev) > 0
         /\ S' = { s \in S : Matches(s, Tr.ev[1]) }
         /\ rk' = IF S' = {} THEN "entry" ELSE ""
         /\ i' = 1 /\ UNCHANGED <<tid, fin>>
Step == /\ ~fin /\ i >= 1 /\ i < Len(Tr.ev) /\ S # {}
        /\ S' = { r \in AllSucc : Matches(r, Tr.ev[i + 1]) }
        /\ rk' = IF S' = {} THEN RejectKind(AllSucc, Tr.ev[i + 1]) ELSE ""
        /\ i' = i + 1 /\ UNCHANGED <<tid, fin>>
Finish == /\ ~fin /\ i >= Len(Tr.ev) /\ S # {}
          /\ S' = IF Tr.exit \in {"returned", "raised"} /\ i >= 1 THEN { r \in AllSucc : r.ph = Tr.exit } ELSE S
          /\ rk' = IF S' = {} THEN "exit" ELSE ""
          /\ fin' = TRUE /\ UNCHANGED <<tid, i>>
Next == First \/ Step \/ Finish
Spec == Init /\ [][Next]_tvars

\* S is empty in the state AFTER the rejected observation; i counts the observations consumed;
\* at = offset of the instruction whose execution was not a step of the model
Rec(inv) == [v |-> inv, tid |-> tid, cid |-> Tr.cid, i |-> i, kind |-> rk, exit |-> Tr.exit,
             pc |-> IF i >= 1 /\ i <= Len(Tr.ev) THEN Tr.ev[i].pc ELSE -1,
             at |-> IF fin THEN (IF Len(Tr.ev) >= 1 THEN Tr.ev[Len(Tr.ev)].pc ELSE -1)
                    ELSE IF i >= 2 THEN Tr.ev[i - 1].pc ELSE -1]
Accepted == S # {} \/ ~PrintT(ToJson(Rec("Accepted")))
\* the real stack never exceeds co_stacksize
ObservedDepthOK ==
  (i >= 1 /\ i <= Len(Tr.ev) /\ ~fin /\ Len(Tr.ev[i].tags) > Codes[Tr.cid].stacksize) => ~PrintT(ToJson(Rec("ObservedDepthOK")))
====
