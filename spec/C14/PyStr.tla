----------------------------------- MODULE PyStr -----------------------------------
(* C14 -- Python 3.4 strings as SEQUENCES OF CODE POINTS (naturals <= 0x10FFFF). UTF-8 never appears
   in this module: that is the point of the property. Positions are 0-based like Python's.

     Len / Index / Slice / Iter            sequence behaviour (PySlice_GetIndicesEx clamping)
     Find Count StartsWith EndsWith In     substring search with optional start/end (CPython's ADJUST_INDICES)
     Split SplitWS Join Strip LStrip RStrip Replace
     Less / equality                       lexicographic by code point
     Repeat, concatenation, Ord / Chr
     Repr / Decode                         repr escaping of str and bytes and literal decoding; Decode(Repr(s)) = s
     ValRepr / ValDecode / ValEq           literals of int, float (exact decimals), str, bytes, nested tuple/list

   NoArg stands for an omitted (or None) argument.                                                  *)
EXTENDS Integers, Sequences, FiniteSets, TLC

NoArg == 1000000000
MaxCP == 1114111        \* 0x10FFFF
\* the code points c with c.isspace() (Unicode 6.3: bidirectional type WS, B or S, or category Zs): whitespace of split()/strip()
WS == {9, 10, 11, 12, 13, 28, 29, 30, 31, 32, 133, 160, 5760, 8232, 8233, 8239, 8287, 12288} \cup (8192..8202)

Sub(s, i, j) == SubSeq(s, i + 1, j)                    \* 0-based half-open s[i:j], 0 <= i <= j <= Len(s)
MatchAt(s, t, i) == i >= 0 /\ i + Len(t) <= Len(s) /\ Sub(s, i, i + Len(t)) = t

\* ------------------------------------------------------------------------------ index / slice
OkV(v) == [ok |-> TRUE, exc |-> "", v |-> v]
ExcV(c) == [ok |-> FALSE, exc |-> c, v |-> <<>>]
Index(s, i) == LET j == IF i < 0 THEN i + Len(s) ELSE i IN
               IF j < 0 \/ j >= Len(s) THEN ExcV("IndexError") ELSE OkV(<<s[j + 1]>>)
SliceIdx(n, a, b, st) ==
    LET step == IF st = NoArg THEN 1 ELSE st
        clampS(x) == LET y == IF x < 0 THEN x + n ELSE x
                         z == IF y < 0 THEN (IF step < 0 THEN -1 ELSE 0) ELSE y
                     IN IF z >= n THEN (IF step < 0 THEN n - 1 ELSE n) ELSE z
        start == IF a = NoArg THEN (IF step < 0 THEN n - 1 ELSE 0) ELSE clampS(a)
        stop == IF b = NoArg THEN (IF step < 0 THEN -1 ELSE n) ELSE clampS(b)
        len == IF (step < 0 /\ stop >= start) \/ (step > 0 /\ start >= stop) THEN 0
               ELSE IF step < 0 THEN ((start - stop - 1) \div (-step)) + 1
               ELSE ((stop - start - 1) \div step) + 1
    IN [start |-> start, step |-> step, len |-> len]
Slice(s, a, b, st) == IF st = 0 THEN ExcV("ValueError")
                      ELSE LET g == SliceIdx(Len(s), a, b, st) IN OkV([j \in 1..g.len |-> s[g.start + (j - 1) * g.step + 1]])
\* the declarative reading of a slice with step 1, used as a cross-check of SliceIdx
SliceDecl(s, a, b) ==
    LET n == Len(s)
        norm(x, dflt) == IF x = NoArg THEN dflt ELSE IF x < 0 THEN (IF x + n < 0 THEN 0 ELSE x + n) ELSE IF x > n THEN n ELSE x
        A == norm(a, 0)
        B == norm(b, n)
    IN IF A >= B THEN <<>> ELSE Sub(s, A, B)

\* ------------------------------------------------------------------------------ searching
\* CPython's ADJUST_INDICES: end is clamped to the length, start only lifted to 0
AdjS(a, n) == IF a = NoArg THEN 0 ELSE IF a < 0 THEN (IF a + n < 0 THEN 0 ELSE a + n) ELSE a
AdjE(b, n) == IF b = NoArg THEN n ELSE IF b > n THEN n ELSE IF b < 0 THEN (IF b + n < 0 THEN 0 ELSE b + n) ELSE b
Hits(s, t, a, b) == LET A == AdjS(a, Len(s))
                        B == AdjE(b, Len(s))
                    IN { i \in A..B : i + Len(t) <= B /\ MatchAt(s, t, i) }
MinOf(S) == CHOOSE x \in S : \A y \in S : x <= y
Find(s, t, a, b) == LET H == Hits(s, t, a, b) IN IF H = {} THEN -1 ELSE MinOf(H)
StrIn(t, s) == Find(s, t, NoArg, NoArg) >= 0
RECURSIVE CountFrom(_, _, _, _)
CountFrom(s, t, i, B) == IF i + Len(t) > B THEN 0
                         ELSE IF MatchAt(s, t, i) THEN 1 + CountFrom(s, t, i + Len(t), B) ELSE CountFrom(s, t, i + 1, B)
Count(s, t, a, b) == LET A == AdjS(a, Len(s))
                         B == AdjE(b, Len(s))
                     IN IF t = <<>> THEN (IF A <= B THEN B - A + 1 ELSE 0) ELSE CountFrom(s, t, A, B)
StartsWith(s, t, a, b) == LET A == AdjS(a, Len(s))
                              B == AdjE(b, Len(s))
                          IN A + Len(t) <= B /\ MatchAt(s, t, A)
EndsWith(s, t, a, b) == LET A == AdjS(a, Len(s))
                            B == AdjE(b, Len(s))
                        IN B - Len(t) >= A /\ MatchAt(s, t, B - Len(t))

\* ------------------------------------------------------------------------------ replace / strip / split / join
RECURSIVE ReplaceFrom(_, _, _, _)
ReplaceFrom(s, t, r, i) == IF i >= Len(s) THEN <<>>
                           ELSE IF MatchAt(s, t, i) THEN r \o ReplaceFrom(s, t, r, i + Len(t))
                           ELSE <<s[i + 1]>> \o ReplaceFrom(s, t, r, i + 1)
RECURSIVE Weave(_, _, _)
Weave(s, r, i) == IF i > Len(s) THEN <<>> ELSE <<s[i]>> \o r \o Weave(s, r, i + 1)
Replace(s, t, r) == IF t = <<>> THEN r \o Weave(s, r, 1) ELSE ReplaceFrom(s, t, r, 0)
RECURSIVE LStripSet(_, _), RStripSet(_, _)
LStripSet(s, C) == IF s # <<>> /\ Head(s) \in C THEN LStripSet(Tail(s), C) ELSE s
RStripSet(s, C) == IF s # <<>> /\ s[Len(s)] \in C THEN RStripSet(SubSeq(s, 1, Len(s) - 1), C) ELSE s
CharSet(t) == IF t = <<NoArg>> THEN WS ELSE { t[i] : i \in 1..Len(t) }      \* <<NoArg>>: strip() without argument
Strip(s, t) == RStripSet(LStripSet(s, CharSet(t)), CharSet(t))
LStrip(s, t) == LStripSet(s, CharSet(t))
RStrip(s, t) == RStripSet(s, CharSet(t))
RECURSIVE SplitFrom(_, _, _, _)
SplitFrom(s, t, i, cur) == IF i >= Len(s) THEN <<cur>>
                           ELSE IF MatchAt(s, t, i) THEN <<cur>> \o SplitFrom(s, t, i + Len(t), <<>>)
                           ELSE SplitFrom(s, t, i + 1, Append(cur, s[i + 1]))
Split(s, t) == SplitFrom(s, t, 0, <<>>)                      \* t non-empty (empty separator: ValueError)
RECURSIVE SplitWS(_, _, _)
SplitWS(s, i, cur) == IF i > Len(s) THEN (IF cur = <<>> THEN <<>> ELSE <<cur>>)
                      ELSE IF s[i] \in WS THEN (IF cur = <<>> THEN <<>> ELSE <<cur>>) \o SplitWS(s, i + 1, <<>>)
                      ELSE SplitWS(s, i + 1, Append(cur, s[i]))
RECURSIVE Join(_, _)
Join(sep, xs) == IF xs = <<>> THEN <<>> ELSE IF Len(xs) = 1 THEN xs[1] ELSE xs[1] \o sep \o Join(sep, Tail(xs))
RECURSIVE Less(_, _)
Less(s, t) == IF t = <<>> THEN FALSE ELSE IF s = <<>> THEN TRUE
              ELSE IF Head(s) # Head(t) THEN Head(s) < Head(t) ELSE Less(Tail(s), Tail(t))
RECURSIVE Repeat(_, _)
Repeat(s, n) == IF n <= 0 THEN <<>> ELSE s \o Repeat(s, n - 1)
Ord(s) == IF Len(s) = 1 THEN [ok |-> TRUE, exc |-> "", n |-> s[1]] ELSE [ok |-> FALSE, exc |-> "TypeError", n |-> 0]
Chr(c) == IF c < 0 \/ c > MaxCP THEN ExcV("ValueError") ELSE OkV(<<c>>)

\* ------------------------------------------------------------------------------ repr of str and bytes
Q1 == 39    \* '
Q2 == 34    \* "
BS == 92    \* backslash
\* code points repr must escape. The Unicode database is not part of this module: the set below is exact for
\* U+0000..U+00FF and lists the other non-printable code points the generators use (separators, format and
\* unassigned characters, surrogates, noncharacters, private use). It is only used by Repr; Decode accepts both forms.
NonPrintable(c) == c < 32 \/ (c >= 127 /\ c <= 160) \/ c = 173
                   \/ c \in {888, 8203, 8232, 8233, 12288, 55296, 57343, 57344, 65279, 65534, 65535, 917504, 1114111}
HexDigit(d) == IF d < 10 THEN 48 + d ELSE 87 + d        \* lower case
RECURSIVE HexN(_, _)
HexN(c, w) == IF w = 0 THEN <<>> ELSE HexN(c \div 16, w - 1) \o <<HexDigit(c % 16)>>
QuoteOf(s) == IF (\E i \in 1..Len(s) : s[i] = Q1) /\ ~(\E i \in 1..Len(s) : s[i] = Q2) THEN Q2 ELSE Q1
EscChar(c, q, isBytes) ==
    CASE c = BS -> <<BS, BS>>
      [] c = q -> <<BS, c>>
      [] c = 9 -> <<BS, 116>>
      [] c = 10 -> <<BS, 110>>
      [] c = 13 -> <<BS, 114>>
      [] isBytes /\ (c < 32 \/ c >= 127) -> <<BS, 120>> \o HexN(c, 2)
      [] ~isBytes /\ NonPrintable(c) -> IF c < 256 THEN <<BS, 120>> \o HexN(c, 2)
                                        ELSE IF c < 65536 THEN <<BS, 117>> \o HexN(c, 4)
                                        ELSE <<BS, 85>> \o HexN(c, 8)
      [] OTHER -> <<c>>
RECURSIVE EscAll(_, _, _)
EscAll(s, q, isBytes) == IF s = <<>> THEN <<>> ELSE EscChar(Head(s), q, isBytes) \o EscAll(Tail(s), q, isBytes)
Repr(s) == LET q == QuoteOf(s) IN <<q>> \o EscAll(s, q, FALSE) \o <<q>>
ReprBytes(s) == LET q == QuoteOf(s) IN <<98, q>> \o EscAll(s, q, TRUE) \o <<q>>

\* ------------------------------------------------------------------------------ decoding of string literals
HexVal(c) == IF c >= 48 /\ c <= 57 THEN c - 48 ELSE IF c >= 97 /\ c <= 102 THEN c - 87 ELSE IF c >= 65 /\ c <= 70 THEN c - 55 ELSE -1
IsOct(c) == c >= 48 /\ c <= 55
\* value of the w hex digits at positions p..p+w-1 of x (1-based), -1 if not all hex / too short
RECURSIVE HexAt(_, _, _, _)
HexAt(x, p, w, acc) == IF w = 0 THEN acc
                       ELSE IF p > Len(x) \/ HexVal(x[p]) < 0 THEN -1
                       ELSE HexAt(x, p + 1, w - 1, acc * 16 + HexVal(x[p]))
\* decode the body of a literal from position p up to the closing quote q:
\* [ok, v, p] with p the position AFTER the closing quote
RECURSIVE DecBody(_, _, _, _, _)
DecBody(x, p, q, isBytes, acc) ==
    IF p > Len(x) THEN [ok |-> FALSE, v |-> acc, p |-> p]                              \* unterminated
    ELSE LET c == x[p] IN
    IF c = q THEN [ok |-> TRUE, v |-> acc, p |-> p + 1]
    ELSE IF c = 10 THEN [ok |-> FALSE, v |-> acc, p |-> p]                            \* raw newline in a short string
    ELSE IF isBytes /\ c > 127 THEN [ok |-> FALSE, v |-> acc, p |-> p]                \* bytes literals are ASCII
    ELSE IF c # BS THEN DecBody(x, p + 1, q, isBytes, Append(acc, c))
    ELSE IF p + 1 > Len(x) THEN [ok |-> FALSE, v |-> acc, p |-> p]
    ELSE LET e == x[p + 1] IN
         CASE e = BS \/ e = Q1 \/ e = Q2 -> DecBody(x, p + 2, q, isBytes, Append(acc, e))
           [] e = 10 -> DecBody(x, p + 2, q, isBytes, acc)                             \* line continuation
           [] e = 97 -> DecBody(x, p + 2, q, isBytes, Append(acc, 7))
           [] e = 98 -> DecBody(x, p + 2, q, isBytes, Append(acc, 8))
           [] e = 102 -> DecBody(x, p + 2, q, isBytes, Append(acc, 12))
           [] e = 110 -> DecBody(x, p + 2, q, isBytes, Append(acc, 10))
           [] e = 114 -> DecBody(x, p + 2, q, isBytes, Append(acc, 13))
           [] e = 116 -> DecBody(x, p + 2, q, isBytes, Append(acc, 9))
           [] e = 118 -> DecBody(x, p + 2, q, isBytes, Append(acc, 11))
           [] IsOct(e) ->
                LET n2 == p + 2 <= Len(x) /\ IsOct(x[p + 2])
                    n3 == n2 /\ p + 3 <= Len(x) /\ IsOct(x[p + 3])
                    val == IF n3 THEN (e - 48) * 64 + (x[p + 2] - 48) * 8 + (x[p + 3] - 48)
                           ELSE IF n2 THEN (e - 48) * 8 + (x[p + 2] - 48) ELSE e - 48
                    w == IF n3 THEN 4 ELSE IF n2 THEN 3 ELSE 2
                IN DecBody(x, p + w, q, isBytes, Append(acc, IF isBytes THEN val % 256 ELSE val))
           [] e = 120 -> LET h == HexAt(x, p + 2, 2, 0) IN
                         IF h < 0 THEN [ok |-> FALSE, v |-> acc, p |-> p] ELSE DecBody(x, p + 4, q, isBytes, Append(acc, h))
           [] e = 117 /\ ~isBytes -> LET h == HexAt(x, p + 2, 4, 0) IN
                         IF h < 0 THEN [ok |-> FALSE, v |-> acc, p |-> p] ELSE DecBody(x, p + 6, q, isBytes, Append(acc, h))
           [] e = 85 /\ ~isBytes -> LET h == HexAt(x, p + 2, 8, 0) IN
                         IF h < 0 \/ h > MaxCP THEN [ok |-> FALSE, v |-> acc, p |-> p] ELSE DecBody(x, p + 10, q, isBytes, Append(acc, h))
           [] e = 78 /\ ~isBytes -> [ok |-> FALSE, v |-> acc, p |-> p]                 \* \N{name}: needs the name table, outside this module
           [] OTHER -> DecBody(x, p + 2, q, isBytes, acc \o <<BS, e>>)                  \* unknown escapes stay
\* a complete str literal 'body' or "body" (what repr produces: no prefix, no triple quotes)
Decode(x) == IF Len(x) < 2 \/ x[1] \notin {Q1, Q2} THEN [ok |-> FALSE, v |-> <<>>]
             ELSE LET r == DecBody(x, 2, x[1], FALSE, <<>>) IN [ok |-> r.ok /\ r.p = Len(x) + 1, v |-> r.v]

\* ------------------------------------------------------------------------------ values and their literals
\* uniform records: t in str | bytes | int | float | tuple | list | bad
\*   str/bytes: cps;  int: neg + digits (no leading zeros: arbitrary size, no arithmetic needed);
\*   float: the exact rational n/d of a finite decimal (small numbers only);  tuple/list: xs
V(t, cps, neg, digits, n, d, xs) == [t |-> t, cps |-> cps, neg |-> neg, digits |-> digits, n |-> n, d |-> d, xs |-> xs]
VStrC(s) == V("str", s, FALSE, <<>>, 0, 1, <<>>)
VBytesC(s) == V("bytes", s, FALSE, <<>>, 0, 1, <<>>)
VIntC(neg, digits) == V("int", <<>>, neg /\ digits # <<0>>, digits, 0, 1, <<>>)
VFloatC(n, d) == V("float", <<>>, FALSE, <<>>, n, d, <<>>)
VTupleC(xs) == V("tuple", <<>>, FALSE, <<>>, 0, 1, xs)
VListC(xs) == V("list", <<>>, FALSE, <<>>, 0, 1, xs)
VBad == V("bad", <<>>, FALSE, <<>>, 0, 1, <<>>)

RECURSIVE GcdS(_, _)
GcdS(a, b) == IF b = 0 THEN a ELSE GcdS(b, a % b)
AbsS(x) == IF x < 0 THEN -x ELSE x
NormQ(n, d) == LET g == GcdS(AbsS(n), d) IN IF g = 0 THEN [n |-> 0, d |-> 1] ELSE [n |-> n \div g, d |-> d \div g]
RECURSIVE DigitsVal(_, _)
DigitsVal(ds, acc) == IF ds = <<>> THEN acc ELSE DigitsVal(Tail(ds), acc * 10 + Head(ds))
RECURSIVE Pow10(_)
Pow10(k) == IF k = 0 THEN 1 ELSE 10 * Pow10(k - 1)
SmallInt(v) == v.t = "int" /\ Len(v.digits) <= 8
IntQ(v) == LET m == DigitsVal(v.digits, 0) IN [n |-> IF v.neg THEN -m ELSE m, d |-> 1]

\* Python's == on these values (int and float compare by numeric value)
RECURSIVE ValEq(_, _)
ValEq(a, b) ==
    IF a.t = "bad" \/ b.t = "bad" THEN FALSE
    ELSE IF a.t \in {"int", "float"} /\ b.t \in {"int", "float"} THEN
         (IF a.t = "int" /\ b.t = "int" THEN a.neg = b.neg /\ a.digits = b.digits
          ELSE IF (a.t = "int" /\ ~SmallInt(a)) \/ (b.t = "int" /\ ~SmallInt(b)) THEN FALSE
          ELSE LET x == IF a.t = "int" THEN IntQ(a) ELSE [n |-> a.n, d |-> a.d]
                   y == IF b.t = "int" THEN IntQ(b) ELSE [n |-> b.n, d |-> b.d]
               IN x.n = y.n /\ x.d = y.d)            \* both in lowest terms
    ELSE IF a.t # b.t THEN FALSE
    ELSE IF a.t \in {"str", "bytes"} THEN a.cps = b.cps
    ELSE Len(a.xs) = Len(b.xs) /\ \A i \in 1..Len(a.xs) : ValEq(a.xs[i], b.xs[i])

IsDigit(c) == c >= 48 /\ c <= 57
RECURSIVE SkipSp(_, _)
SkipSp(x, p) == IF p <= Len(x) /\ x[p] = 32 THEN SkipSp(x, p + 1) ELSE p
RECURSIVE ReadDigits(_, _, _)
ReadDigits(x, p, acc) == IF p <= Len(x) /\ IsDigit(x[p]) THEN ReadDigits(x, p + 1, Append(acc, x[p] - 48)) ELSE [ds |-> acc, p |-> p]
RECURSIVE StripZeros(_)
StripZeros(ds) == IF Len(ds) > 1 /\ Head(ds) = 0 THEN StripZeros(Tail(ds)) ELSE ds

\* number literal at p: [ok, v, p]
ReadNumber(x, p0) ==
    LET neg == p0 <= Len(x) /\ x[p0] = 45
        p1 == IF neg THEN p0 + 1 ELSE p0
        ip == ReadDigits(x, p1, <<>>)
        hasDot == ip.p <= Len(x) /\ x[ip.p] = 46
        fp == IF hasDot THEN ReadDigits(x, ip.p + 1, <<>>) ELSE [ds |-> <<>>, p |-> ip.p]
        hasExp == fp.p <= Len(x) /\ x[fp.p] \in {101, 69}
        esign == hasExp /\ fp.p + 1 <= Len(x) /\ x[fp.p + 1] \in {43, 45}
        eneg == esign /\ x[fp.p + 1] = 45
        ep == IF hasExp THEN ReadDigits(x, fp.p + (IF esign THEN 2 ELSE 1), <<>>) ELSE [ds |-> <<>>, p |-> fp.p]
        fail == [ok |-> FALSE, v |-> VBad, p |-> p0]
    IN IF ip.ds = <<>> /\ fp.ds = <<>> THEN fail
       ELSE IF hasExp /\ ep.ds = <<>> THEN fail
       ELSE IF ~hasDot /\ ~hasExp THEN
            (IF Len(ip.ds) > 1 /\ Head(ip.ds) = 0 /\ StripZeros(ip.ds) # <<0>> THEN fail       \* 012 is not a literal
             ELSE [ok |-> TRUE, v |-> VIntC(neg, StripZeros(ip.ds)), p |-> ip.p])
       ELSE \* a float: exact decimal value, only while everything stays small
            LET mant == StripZeros(ip.ds \o fp.ds)
                e10 == (IF eneg THEN -1 ELSE 1) * DigitsVal(ep.ds, 0) - Len(fp.ds)
            IN IF Len(mant) > 8 \/ Len(ep.ds) > 2 \/ e10 > 8 \/ e10 < -8 THEN [ok |-> TRUE, v |-> VBad, p |-> ep.p]   \* outside the modelled floats
               ELSE LET m == DigitsVal(mant, 0) * (IF neg THEN -1 ELSE 1)
                        q == IF e10 >= 0 THEN (IF Len(mant) + e10 > 9 THEN [n |-> 0, d |-> 0] ELSE [n |-> m * Pow10(e10), d |-> 1])
                             ELSE NormQ(m, Pow10(-e10))
                    IN IF q.d = 0 THEN [ok |-> TRUE, v |-> VBad, p |-> ep.p]
                       ELSE [ok |-> TRUE, v |-> VFloatC(q.n, q.d), p |-> ep.p]

\* value literal at p (leading blanks allowed): [ok, v, p]
RECURSIVE ReadValue(_, _), ReadItems(_, _, _, _)
ReadValue(x, p0) ==
    LET p == SkipSp(x, p0)
        fail == [ok |-> FALSE, v |-> VBad, p |-> p]
    IN IF p > Len(x) THEN fail
       ELSE LET c == x[p] IN
       IF c \in {Q1, Q2} THEN LET r == DecBody(x, p + 1, c, FALSE, <<>>) IN [ok |-> r.ok, v |-> VStrC(r.v), p |-> r.p]
       ELSE IF c = 98 /\ p + 1 <= Len(x) /\ x[p + 1] \in {Q1, Q2} THEN
            LET r == DecBody(x, p + 2, x[p + 1], TRUE, <<>>) IN [ok |-> r.ok, v |-> VBytesC(r.v), p |-> r.p]
       ELSE IF c = 40 \/ c = 91 THEN ReadItems(x, p + 1, IF c = 40 THEN 41 ELSE 93, [xs |-> <<>>, comma |-> FALSE])
       ELSE IF c = 45 \/ IsDigit(c) \/ c = 46 THEN ReadNumber(x, p)
       ELSE fail
\* items up to the closing bracket close; st = [xs, comma (a comma was seen)]
ReadItems(x, p0, close, st) ==
    LET p == SkipSp(x, p0) IN
    IF p > Len(x) THEN [ok |-> FALSE, v |-> VBad, p |-> p]
    ELSE IF x[p] = close THEN
         [ok |-> TRUE, p |-> p + 1,
          v |-> IF close = 93 THEN VListC(st.xs)
                ELSE IF Len(st.xs) = 1 /\ ~st.comma THEN st.xs[1]          \* (x) is x; (x,) is a tuple
                ELSE VTupleC(st.xs)]
    ELSE LET r == ReadValue(x, p) IN
         IF ~r.ok THEN r
         ELSE LET p2 == SkipSp(x, r.p) IN
              IF p2 <= Len(x) /\ x[p2] = 44 THEN ReadItems(x, p2 + 1, close, [xs |-> Append(st.xs, r.v), comma |-> TRUE])
              ELSE IF p2 <= Len(x) /\ x[p2] = close THEN ReadItems(x, p2, close, [xs |-> Append(st.xs, r.v), comma |-> st.comma])
              ELSE [ok |-> FALSE, v |-> VBad, p |-> p2]
ValDecode(x) == LET r == ReadValue(x, 1) IN
                IF r.ok /\ SkipSp(x, r.p) = Len(x) + 1 THEN r.v ELSE VBad

\* repr of a value (for the design check ValDecode(ValRepr(v)) = v)
RECURSIVE DigitsText(_)
DigitsText(ds) == IF ds = <<>> THEN <<>> ELSE <<48 + Head(ds)>> \o DigitsText(Tail(ds))
RECURSIVE NatDigits(_)
NatDigits(n) == IF n < 10 THEN <<n>> ELSE NatDigits(n \div 10) \o <<n % 10>>
\* decimal expansion of a rational whose denominator divides a power of ten (d = 2^i 5^j, small)
RECURSIVE FracDigits(_, _, _)
FracDigits(r, d, k) == IF r = 0 \/ k = 0 THEN <<>> ELSE <<(r * 10) \div d>> \o FracDigits((r * 10) % d, d, k - 1)
FloatText(n, d) == LET a == AbsS(n)
                       ip == NatDigits(a \div d)
                       fr == FracDigits(a % d, d, 12)
                   IN (IF n < 0 THEN <<45>> ELSE <<>>) \o DigitsText(ip) \o <<46>> \o (IF fr = <<>> THEN <<48>> ELSE DigitsText(fr))
RECURSIVE ValRepr(_), ItemsRepr(_)
ItemsRepr(xs) == IF xs = <<>> THEN <<>> ELSE IF Len(xs) = 1 THEN ValRepr(xs[1]) ELSE ValRepr(xs[1]) \o <<44, 32>> \o ItemsRepr(Tail(xs))
ValRepr(v) ==
    CASE v.t = "str" -> Repr(v.cps)
      [] v.t = "bytes" -> ReprBytes(v.cps)
      [] v.t = "int" -> (IF v.neg THEN <<45>> ELSE <<>>) \o DigitsText(v.digits)
      [] v.t = "float" -> FloatText(v.n, v.d)
      [] v.t = "list" -> <<91>> \o ItemsRepr(v.xs) \o <<93>>
      [] v.t = "tuple" -> <<40>> \o ItemsRepr(v.xs) \o (IF Len(v.xs) = 1 THEN <<44>> ELSE <<>>) \o <<41>>
====================================================================================
