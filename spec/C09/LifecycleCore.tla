--------------------------- MODULE LifecycleCore ---------------------------
(* The core of C09 as four variables and five atomic steps.  Lifecycle.tla (one action per      *)
(* critical section of stdlib/stdlib.go, free-running wake-up) is checked to REFINE this module  *)
(* under the mapping aAdm <- admitted, aClosed <- closed, aCbs <- cbs, aDone <- done             *)
(* (property RefinesCore in MC.tla): every step of the implementation-shaped specification is    *)
(* one of these steps or leaves the four variables unchanged.                                    *)
EXTENDS Naturals, FiniteSets
CONSTANT Execs              \* identities of execution requests
VARIABLES aAdm,             \* executions admitted and not finished
          aClosed,          \* nothing is admitted any more
          aCbs,             \* close-callback rounds run
          aDone             \* Done() signalled
cvars == <<aAdm, aClosed, aCbs, aDone>>
CInit == aAdm = {} /\ aClosed = FALSE /\ aCbs = 0 /\ aDone = FALSE
CAdmit(x)  == ~aClosed /\ x \notin aAdm /\ aAdm' = aAdm \cup {x} /\ UNCHANGED <<aClosed, aCbs, aDone>>
CFinish(x) == x \in aAdm /\ aAdm' = aAdm \ {x} /\ UNCHANGED <<aClosed, aCbs, aDone>>
CClose     == ~aClosed /\ aAdm = {} /\ aClosed' = TRUE /\ UNCHANGED <<aAdm, aCbs, aDone>>
CCallbacks == aClosed /\ aAdm = {} /\ aCbs = 0 /\ aCbs' = 1 /\ UNCHANGED <<aAdm, aClosed, aDone>>
CSignal    == aCbs = 1 /\ ~aDone /\ aDone' = TRUE /\ UNCHANGED <<aAdm, aClosed, aCbs>>
CNext == (\E x \in Execs : CAdmit(x) \/ CFinish(x)) \/ CClose \/ CCallbacks \/ CSignal
CSpec == CInit /\ [][CNext]_cvars
=============================================================================
