SPECIFICATION Spec
CONSTANTS
  Mods = {"ma", "mb", "mc"}
  Family = "flat2"
INVARIANTS TypeOK RunOnce NoReentry OneObject Provenance StarRespectsUnderscore Terminates Usable Emit
CHECK_DEADLOCK FALSE
