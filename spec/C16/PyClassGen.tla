------------------------------ MODULE PyClassGen ------------------------------
(* Part B of C16: attribute lookup, binding, writes and deletes (behaviour generation).           *)
(*                                                                                                *)
(* A behaviour builds one case step by step: N class statements (bases with a consistent MRO,     *)
(* and for each of the names x, y either no definition or a plain value / function / classmethod  *)
(* / staticmethod), two instances o1, o2 of chosen classes with chosen instance dictionaries,     *)
(* then a sequence of reads, writes and deletes on instances and classes.  Finish runs the case   *)
(* on the specification's model of the objects (class dictionaries + instance dictionaries) and   *)
(* prints, per operation, the observation Python demands, followed by a sweep that reads both     *)
(* names on every object (so an operation that changed anything but its own target is seen) and   *)
(* isinstance for every (instance, class) pair.  Simulation mode samples the behaviours          *)
(* (Exhaustive = FALSE); model checking with Exhaustive = TRUE enumerates a small scope completely *)
(* (every hierarchy and placement for <= MaxN classes, no operations: the sweep observes all reads).*)
EXTENDS PyClass
CONSTANTS MaxN, MaxBases, OpCounts,    \* OpCounts: the set of operation-sequence lengths
          Exhaustive                      \* TRUE: enumerate every choice (model checking, small scope); FALSE: draw one
VARIABLES phase, n, nops, bases, mros, cdict, icls, idict, ops
vars == <<phase, n, nops, bases, mros, cdict, icls, idict, ops>>

Names == {"x", "y"}
NameSeq == <<"x", "y">>
ClassKinds == {"plain", "func", "classmethod", "staticmethod"}
InstKinds == {"plain", "func"}
\* choices for an instance dictionary entry; "none" is listed three times so that a random walk
\* leaves most instance dictionaries empty (lookups then reach the classes)
InstChoice == <<"none", "none", "none", "plain", "func">>
\* likewise for a class: a name is defined by 4 classes out of 7 on average, so that lookups
\* regularly have to walk past classes that do not define it
ClassChoice == <<"none", "none", "none", "plain", "func", "classmethod", "staticmethod">>
SubsetsUpTo(S, k) == { T \in SUBSET S : Cardinality(T) <= k }
BaseSeqs(c) == UNION { SetToSeqs(T) : T \in SubsetsUpTo(1..(c - 1), MaxBases) }
InstName(i) == "o" \o ToString(i)
\* a dictionary over Names from a choice per name ("none" = not defined)
DictOf(owner, choice) == [nm \in { m \in Names : choice[m] # "none" } |-> [kind |-> choice[nm], tag |-> owner \o "." \o nm]]

\* The choice at every step: all of S (exhaustive small scope) or one element drawn from TLC's
\* seeded generator (simulation: a behaviour then costs a dozen states instead of thousands).
\* `\E v \in Pick(S)` binds the drawn value once; a LET would draw again at every use.
Pick(S) == IF Exhaustive THEN S ELSE { RandomElement(S) }
Init == /\ phase = "classes" /\ n \in (IF Exhaustive THEN 1..MaxN ELSE 2..MaxN) /\ nops \in OpCounts
        /\ bases = <<>> /\ mros = <<>> /\ cdict = <<>> /\ icls = <<>> /\ idict = <<>> /\ ops = <<>>
AddClass == /\ phase = "classes" /\ Len(bases) < n
            /\ LET c == Len(bases) + 1 IN
               \* rejected hierarchies are part A's subject: only consistent base lists here
               \E bs \in Pick({ q \in BaseSeqs(c) : MroOfNew(c, q, mros).ok }),
                  ch \in Pick([Names -> 1..Len(ClassChoice)]) :
                  /\ bases' = Append(bases, bs) /\ mros' = Append(mros, MroOfNew(c, bs, mros).mro)
                  /\ cdict' = Append(cdict, DictOf(ClassName(c), [nm \in Names |-> ClassChoice[ch[nm]]]))
            /\ UNCHANGED <<phase, n, nops, icls, idict, ops>>
\* exhaustive small scope: o1 is an instance of the last class with every combination of
\* absent / plain instance attributes, o2 a bare instance of the first class
InstClasses == IF Exhaustive THEN { [i \in 1..2 |-> IF i = 1 THEN n ELSE 1] } ELSE [1..2 -> 1..n]
InstDicts == IF Exhaustive THEN { f \in [1..2 -> [Names -> {1, 4}]] : \A nm \in Names : f[2][nm] = 1 }
             ELSE [1..2 -> [Names -> 1..Len(InstChoice)]]
MakeInstances == /\ phase = "classes" /\ Len(bases) = n
                 /\ \E cl \in Pick(InstClasses), ch \in Pick(InstDicts) :
                       /\ icls' = [i \in 1..2 |-> cl[i]]
                       /\ idict' = [i \in 1..2 |-> DictOf(InstName(i), [nm \in Names |-> InstChoice[ch[i][nm]]])]
                 /\ phase' = "ops" /\ UNCHANGED <<n, nops, bases, mros, cdict, ops>>
\* operations: target = instance i (inst > 0) or class c (cls > 0)
Targets == { [inst |-> i, cls |-> 0] : i \in 1..2 } \cup { [inst |-> 0, cls |-> c] : c \in 1..n }
OpSet == { [op |-> o, tgt |-> t, name |-> nm, kind |-> k] :
             o \in {"read", "write", "del"}, t \in Targets, nm \in Names, k \in InstKinds }
ValidOp(o) == o.op = "write" \/ o.kind = "plain"          \* kind matters for writes only
AddOp == /\ phase = "ops" /\ Len(ops) < nops
         /\ \E o \in Pick({ x \in OpSet : ValidOp(x) }) : ops' = Append(ops, o)
         /\ UNCHANGED <<phase, n, nops, bases, mros, cdict, icls, idict>>

\* ---------------- the model of the objects ----------------
TgtName(t) == IF t.inst > 0 THEN InstName(t.inst) ELSE ClassName(t.cls)
Where(c, d) == IF d = -1 THEN "nowhere" ELSE IF d = c THEN "own" ELSE "base"
\* read through an instance: its own dictionary first, then the classes along the MRO
ReadI(st, i, nm) ==
  IF nm \in DOMAIN st.id[i] THEN [obs |-> Raw(st.id[i][nm]), part |-> "ReadI|found=instance|kind=" \o st.id[i][nm].kind]
  ELSE LET d == FirstDef(mros[icls[i]], st.cd, nm) IN
       IF d = -1 THEN [obs |-> Exc("AttributeError"), part |-> "ReadI|found=nowhere"]
       ELSE [obs |-> Bind(st.cd[d][nm], InstName(i), ClassName(icls[i])),
             part |-> "ReadI|found=" \o Where(icls[i], d) \o "|kind=" \o st.cd[d][nm].kind]
\* read on a class: first definition along the class's own MRO
ReadC(st, c, nm) ==
  LET d == FirstDef(mros[c], st.cd, nm) IN
  IF d = -1 THEN [obs |-> Exc("AttributeError"), part |-> "ReadC|found=nowhere"]
  ELSE [obs |-> Bind(st.cd[d][nm], "", ClassName(c)), part |-> "ReadC|found=" \o Where(c, d) \o "|kind=" \o st.cd[d][nm].kind]
Read(st, t, nm) == IF t.inst > 0 THEN ReadI(st, t.inst, nm) ELSE ReadC(st, t.cls, nm)
Put(dict, nm, d) == [m \in DOMAIN dict \cup {nm} |-> IF m = nm THEN d ELSE dict[m]]
Drop(dict, nm) == [m \in DOMAIN dict \ {nm} |-> dict[m]]
\* one operation: the new model state and the observation.  A write or delete touches exactly
\* the dictionary of its target; deleting a name the target's own dictionary lacks is an
\* AttributeError even if the name is visible through inheritance.
Step(st, o, k) ==
  LET t == o.tgt  nm == o.name  d == [kind |-> o.kind, tag |-> "w" \o ToString(k)] IN
  CASE o.op = "read" -> [st |-> st, r |-> Read(st, t, nm)]
    [] o.op = "write" ->
         IF t.inst > 0 THEN [st |-> [st EXCEPT !.id[t.inst] = Put(@, nm, d)], r |-> [obs |-> Done, part |-> "WriteI"]]
         ELSE [st |-> [st EXCEPT !.cd[t.cls] = Put(@, nm, d)], r |-> [obs |-> Done, part |-> "WriteC"]]
    [] o.op = "del" ->
         IF t.inst > 0 THEN
           IF nm \in DOMAIN st.id[t.inst] THEN [st |-> [st EXCEPT !.id[t.inst] = Drop(@, nm)], r |-> [obs |-> Done, part |-> "DelI|present"]]
           ELSE [st |-> st, r |-> [obs |-> Exc("AttributeError"), part |-> "DelI|absent"]]
         ELSE
           IF nm \in DOMAIN st.cd[t.cls] THEN [st |-> [st EXCEPT !.cd[t.cls] = Drop(@, nm)], r |-> [obs |-> Done, part |-> "DelC|own"]]
           ELSE [st |-> st, r |-> [obs |-> Exc("AttributeError"),
                                   part |-> IF FirstDef(mros[t.cls], st.cd, nm) = -1 THEN "DelC|absent" ELSE "DelC|inherited only"]]
Run == LET f(acc, k) == LET s == Step(acc.st, ops[k], k) IN [st |-> s.st, out |-> Append(acc.out, s.r)]
       IN FoldLeft(f, [st |-> [cd |-> cdict, id |-> idict], out |-> <<>>], [k \in 1..Len(ops) |-> k])
TargetSeq == [i \in 1..2 |-> [inst |-> i, cls |-> 0]] \o [c \in 1..n |-> [inst |-> 0, cls |-> c]]
Sweep(st) == [j \in 1..(2 * Len(TargetSeq)) |->
                LET t == TargetSeq[(j + 1) \div 2]  nm == NameSeq[2 - (j % 2)]  r == Read(st, t, nm)
                IN [tgt |-> TgtName(t), name |-> nm, obs |-> r.obs, part |-> r.part]]
IsInstPart(i, c) == IF c = icls[i] THEN "IsInstance|class=own" ELSE IF c \in ElemsOf(mros[icls[i]]) THEN "IsInstance|class=ancestor" ELSE "IsInstance|class=unrelated"
IsInstSeq == [j \in 1..(2 * n) |-> LET i == ((j - 1) \div n) + 1  c == ((j - 1) % n) + 1 IN
                [inst |-> InstName(i), cls |-> ClassName(c), r |-> c \in ElemsOf(mros[icls[i]]), part |-> IsInstPart(i, c)]]
KindsOf(dict) == [nm \in Names |-> IF nm \in DOMAIN dict THEN dict[nm].kind ELSE "none"]
Record ==
  LET run == Run IN
  [n |-> n, bases |-> bases, mro |-> mros,
   classes |-> [c \in 1..n |-> KindsOf(cdict[c])],
   icls |-> icls, insts |-> [i \in 1..2 |-> KindsOf(idict[i])],
   ops |-> [k \in 1..Len(ops) |-> [op |-> ops[k].op, tgt |-> TgtName(ops[k].tgt), name |-> ops[k].name, kind |-> ops[k].kind,
                                   tag |-> "w" \o ToString(k), obs |-> run.out[k].obs, part |-> run.out[k].part]],
   sweep |-> Sweep(run.st), isinst |-> IsInstSeq]
Finish == /\ phase = "ops" /\ Len(ops) = nops
          /\ PrintT(ToJson(Record))
          /\ phase' = "done" /\ UNCHANGED <<n, nops, bases, mros, cdict, icls, idict, ops>>
Next == AddClass \/ MakeInstances \/ AddOp \/ Finish
Spec == Init /\ [][Next]_vars
\* the model itself keeps the property's frame condition: an operation changes at most the
\* dictionary of its target (checked on every generated behaviour)
MrosOk == \A c \in 1..Len(bases) : mros[c] = MroOfNew(c, bases[c], mros).mro /\ MroOfNew(c, bases[c], mros).ok
FrameOk == phase = "done" =>
  \A k \in 1..Len(ops) :
    LET before == (IF k = 1 THEN [cd |-> cdict, id |-> idict]
                   ELSE FoldLeft(LAMBDA acc, j : Step(acc, ops[j], j).st, [cd |-> cdict, id |-> idict], [j \in 1..(k - 1) |-> j]))
        after == Step(before, ops[k], k).st
        t == ops[k].tgt
    IN /\ \A i \in 1..2 : (t.inst # i) => after.id[i] = before.id[i]
       /\ \A c \in 1..n : (t.cls # c) => after.cd[c] = before.cd[c]
       /\ ops[k].op = "read" => after = before
=============================================================================
