SPECIFICATION Spec
CONSTANT NChunks = 16
INVARIANT DesignOk
CHECK_DEADLOCK FALSE
