------------------------------- MODULE PyLex -------------------------------
(* The line structure of Python 3.4 source (Language Reference 2.1) as a state machine over  *)
(* physical lines.  Shared by C06 (parsing) and C11 (compile pipeline).                       *)
(*                                                                                            *)
(* A physical line is a sequence of items, each a record [k, n, t]:                           *)
(*   k = "ws"      n spaces                       k = "tab"     one tab                       *)
(*   k = "ff"      one form feed                  k = "tok"     a token of kind t             *)
(*   k = "comment" a comment (runs to the end of the line: must be the last item)             *)
(*   k = "bslash"  backslash immediately before the line terminator (must be the last item)   *)
(* The line terminator itself is implicit.  The output is the sequence of token kinds with    *)
(* NEWLINE / INDENT / DEDENT / ENDMARKER inserted, or an error:                               *)
(*   err = "dedent"  unindent does not match any outer indentation level (IndentationError)   *)
(*   err = "tab"     inconsistent use of tabs and spaces in indentation (TabError)            *)
(*   err = "eof"     end of file inside brackets or after a backslash (SyntaxError)           *)
(* nest = FALSE records that a closing bracket did not match the innermost open one; the      *)
(* reference manual gives such text no token-level meaning beyond "it is an error", so users  *)
(* of this module make no token-level claim when nest = FALSE.                                *)
EXTENDS Integers, Sequences, FiniteSets, TLC, SequencesExt

PLTabSize == 8
PLOpen  == {"(", "[", "{"}
PLClose == {")", "]", "}"}
PLPair(o, c) == (o = "(" /\ c = ")") \/ (o = "[" /\ c = "]") \/ (o = "{" /\ c = "}")

PLItem(k, n, t) == [k |-> k, n |-> n, t |-> t]
PLWs(n)   == PLItem("ws", n, "")
PLTab     == PLItem("tab", 1, "")
PLFf      == PLItem("ff", 1, "")
PLTok(t)  == PLItem("tok", 0, t)
PLComment == PLItem("comment", 0, "")
PLBslash  == PLItem("bslash", 0, "")

(* Leading white space of a line: col counts a tab to the next multiple of eight, alt counts  *)
(* it as one column (the pair is how "meaning depends on the worth of a tab" is decided);     *)
(* a form feed resets both.  first = kind of the first item after the white space.            *)
PLLead(line) ==
  LET step(a, it) ==
        IF a.done THEN a
        ELSE IF it.k = "ws"  THEN [a EXCEPT !.col = @ + it.n, !.alt = @ + it.n]
        ELSE IF it.k = "tab" THEN [a EXCEPT !.col = ((@ \div PLTabSize) + 1) * PLTabSize, !.alt = @ + 1]
        ELSE IF it.k = "ff"  THEN [a EXCEPT !.col = 0, !.alt = 0]
        ELSE [a EXCEPT !.done = TRUE, !.first = it.k]
  IN FoldLeft(step, [col |-> 0, alt |-> 0, done |-> FALSE, first |-> "eol"], line)

PLIsBlank(line) == PLLead(line).first \in {"eol", "comment"}
PLEndsWithBslash(line) == line # <<>> /\ line[Len(line)].k = "bslash"
PLToks(line) == SelectSeq(line, LAMBDA it : it.k = "tok")
PLTop(s) == s[Len(s)]
PLRep(x, n) == [i \in 1..n |-> x]

(* the tokens of one physical line, bracket bookkeeping, and the NEWLINE that ends a logical  *)
(* line (suppressed inside brackets and after a backslash)                                    *)
PLEmit(st, line) ==
  LET step(s, it) ==
        IF it.t \in PLOpen THEN [s EXCEPT !.out = Append(@, it.t), !.br = Append(@, it.t)]
        ELSE IF it.t \in PLClose THEN
             IF s.br # <<>> /\ PLPair(PLTop(s.br), it.t)
             THEN [s EXCEPT !.out = Append(@, it.t), !.br = SubSeq(@, 1, Len(@) - 1)]
             ELSE [s EXCEPT !.out = Append(@, it.t), !.nest = FALSE]
        ELSE [s EXCEPT !.out = Append(@, it.t)]
      s1 == FoldLeft(step, st, PLToks(line))
  IN IF PLEndsWithBslash(line) THEN [s1 EXCEPT !.cont = TRUE]
     ELSE IF s1.br = <<>> THEN [s1 EXCEPT !.out = Append(@, "NEWLINE"), !.cont = FALSE]
     ELSE [s1 EXCEPT !.cont = FALSE]

(* number of indentation levels to pop so that the top has column col (0 if none has)        *)
PLPopCount(ind, col) ==
  LET ks == { k \in 1..Len(ind) : ind[k].col = col } IN
  IF ks = {} THEN 0 ELSE Len(ind) - (CHOOSE k \in ks : TRUE)

PLLine(st, line) ==
  IF st.err # "" THEN st
  ELSE IF st.br = <<>> /\ ~st.cont THEN
       \* start of a logical line
       IF PLIsBlank(line) THEN st
       ELSE LET ld  == PLLead(line)
                top == PLTop(st.ind)
                me  == [col |-> ld.col, alt |-> ld.alt] IN
            IF ld.col = top.col THEN
                 IF ld.alt # top.alt THEN [st EXCEPT !.err = "tab"] ELSE PLEmit(st, line)
            ELSE IF ld.col > top.col THEN
                 IF ld.alt <= top.alt THEN [st EXCEPT !.err = "tab"]
                 ELSE PLEmit([st EXCEPT !.ind = Append(@, me), !.out = Append(@, "INDENT")], line)
            ELSE LET n == PLPopCount(st.ind, ld.col) IN
                 IF n = 0 THEN [st EXCEPT !.err = "dedent"]
                 ELSE LET ind2 == SubSeq(st.ind, 1, Len(st.ind) - n) IN
                      IF PLTop(ind2).alt # ld.alt THEN [st EXCEPT !.err = "tab"]
                      ELSE PLEmit([st EXCEPT !.ind = ind2, !.out = @ \o PLRep("DEDENT", n)], line)
  ELSE \* continuation of a logical line: indentation is insignificant; inside brackets a
       \* blank line vanishes, after a backslash it ends the logical line
       IF PLIsBlank(line) /\ ~st.cont THEN st
       ELSE PLEmit(st, line)

PLStart == [ind |-> << [col |-> 0, alt |-> 0] >>, br |-> <<>>, cont |-> FALSE, out |-> <<>>, err |-> "", nest |-> TRUE]

PLFinish(st) ==
  IF st.err # "" THEN st
  ELSE IF st.br # <<>> \/ st.cont THEN [st EXCEPT !.err = "eof"]
  ELSE [st EXCEPT !.out = (@ \o PLRep("DEDENT", Len(st.ind) - 1)) \o <<"ENDMARKER">>]

(* Lex(lines): lines = sequence of physical lines of a file (file_input)                      *)
PLLex(lines) == PLFinish(FoldLeft(PLLine, PLStart, lines))
=============================================================================
