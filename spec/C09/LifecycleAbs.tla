-------------------------- MODULE LifecycleAbs --------------------------
(* The abstract meaning of C09: admission, completion and closing are atomic steps.            *)
(* Lifecycle.tla (one action per critical section of stdlib/stdlib.go) refines this module;    *)
(* free-running executions of the real code are validated against it (LifecycleAbsTrace).      *)
EXTENDS Integers, Sequences, FiniteSets, TLC

CONSTANT Procs
ExecOps == {"run", "minit", "rac", "runr", "minitr", "racx", "minitc"}
Fails(op) == op \in {"runr", "minitr", "racx", "minitc"}   \* admitted, then fails for its own reasons

VARIABLES phase,    \* phase[p]: [k |-> "idle"] | [k |-> "called", op] | [k |-> "admitted", op] | [k |-> "finished", op, res]
          adm,      \* goroutines whose execution is admitted and not finished
          closed,   \* no execution is admitted any more
          cbs,      \* close-callback rounds run
          done      \* Done() signalled
avars == <<phase, adm, closed, cbs, done>>

Idle == [k |-> "idle", op |-> "-", res |-> "-"]
P(k, op, res) == [k |-> k, op |-> op, res |-> res]

AInit == /\ phase = [p \in Procs |-> Idle] /\ adm = {} /\ closed = FALSE /\ cbs = 0 /\ done = FALSE

(* visible: a goroutine invokes an operation / the operation returns *)
Invoke(p, op) == /\ phase[p].k = "idle"
                 /\ phase' = [phase EXCEPT ![p] = P("called", op, "-")]
                 /\ UNCHANGED <<adm, closed, cbs, done>>
Return(p, op, res) == /\ phase[p] = P("finished", op, res)
                      /\ phase' = [phase EXCEPT ![p] = Idle]
                      /\ UNCHANGED <<adm, closed, cbs, done>>
(* visible: the executed code observes itself running *)
Running(p) == /\ phase[p].k = "admitted" /\ p \in adm /\ UNCHANGED avars

(* internal *)
Admit(p) == /\ phase[p].k = "called" /\ phase[p].op \in ExecOps /\ ~closed
            /\ phase' = [phase EXCEPT ![p] = P("admitted", phase[p].op, "-")]
            /\ adm' = adm \cup {p}
            /\ UNCHANGED <<closed, cbs, done>>
Reject(p) == /\ phase[p].k = "called" /\ phase[p].op \in ExecOps /\ closed
             /\ phase' = [phase EXCEPT ![p] = P("finished", phase[p].op, "err")]
             /\ UNCHANGED <<adm, closed, cbs, done>>
Finish(p) == /\ phase[p].k = "admitted"
             /\ phase' = [phase EXCEPT ![p] = P("finished", phase[p].op, IF Fails(phase[p].op) THEN "err" ELSE "ok")]
             /\ adm' = adm \ {p}
             /\ UNCHANGED <<closed, cbs, done>>
(* some Close is in progress, nothing is admitted: the context becomes closed *)
CloseEffect == /\ ~closed /\ adm = {}
               /\ \E p \in Procs : phase[p] = P("called", "close", "-")
               /\ closed' = TRUE
               /\ UNCHANGED <<phase, adm, cbs, done>>
(* visible through the test module's OnContextClosed *)
Callbacks == /\ closed /\ cbs = 0 /\ adm = {}
             /\ cbs' = 1
             /\ UNCHANGED <<phase, adm, closed, done>>
SignalDone == /\ cbs = 1 /\ ~done /\ done' = TRUE /\ UNCHANGED <<phase, adm, closed, cbs>>
CloseReturn(p) == /\ phase[p] = P("called", "close", "-") /\ done
                  /\ phase' = [phase EXCEPT ![p] = P("finished", "close", "closed")]
                  /\ UNCHANGED <<adm, closed, cbs, done>>
WaitReturn(p) == /\ phase[p] = P("called", "wait", "-") /\ done
                 /\ phase' = [phase EXCEPT ![p] = P("finished", "wait", "done")]
                 /\ UNCHANGED <<adm, closed, cbs, done>>

Internal == \/ \E p \in Procs : Admit(p) \/ Reject(p) \/ Finish(p) \/ CloseReturn(p) \/ WaitReturn(p)
            \/ CloseEffect \/ SignalDone

(* the clauses of C09 hold by construction; stated for the record and checked by TLC *)
AbsInv == /\ cbs <= 1
          /\ done => (cbs = 1 /\ adm = {})
          /\ closed => adm = {}
          /\ cbs > 0 => closed
=============================================================================
