SPECIFICATION Spec
CONSTANT Keys = {"k1", "k2"}
CONSTANT Dumps = {"d1", "d2"}
CONSTANT Procs = {"p1", "p2"}
INVARIANT TypeOK
PROPERTY Functional
PROPERTY ObserverStable
CHECK_DEADLOCK FALSE
