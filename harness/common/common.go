// Package common is the shared plumbing of the gpverif harnesses: environment, TLC runner,
// known-findings classification, evidence files and the VIOLATION / KNOWN-FINDING protocol.
//
// Nothing here knows what a property demands: expectations come from TLC (spec/*), the
// harness only renders cases, runs the real gpython code and compares by equality/membership.
package common

import (
	"bufio"
	"bytes"
	"crypto/sha1"
	"encoding/hex"
	"encoding/json"
	"flag"
	"fmt"
	"io"
	"os"
	"os/exec"
	"path/filepath"
	"regexp"
	"runtime"
	"sort"
	"strconv"
	"strings"
	"sync"
	"syscall"
	"time"
)

// Env describes one run of one check.
type Env struct {
	ID      string // property id, e.g. C09
	Tier    string // quick | thorough
	Seed    int64
	Verif   string // /verif
	Repo    string // /repo
	Scratch string // private dir under /tmp, removed by bin/check
	Replay  string // --replay path ("" = normal run)
	Workers int
	Start   time.Time
}

// Setup parses the flags bin/check passes.
func Setup() *Env {
	e := &Env{Start: time.Now()}
	flag.StringVar(&e.ID, "id", "", "property id")
	flag.StringVar(&e.Tier, "tier", "quick", "quick|thorough")
	flag.StringVar(&e.Verif, "verif", "/verif", "verification directory")
	flag.StringVar(&e.Repo, "repo", "/repo", "repository under test")
	flag.StringVar(&e.Scratch, "scratch", "", "scratch directory")
	flag.StringVar(&e.Replay, "replay", "", "replay one recorded case")
	flag.Parse()
	if e.Tier != "quick" && e.Tier != "thorough" {
		Inconclusive("unknown tier %q", e.Tier)
	}
	if s := os.Getenv("VERIF_SEED"); s != "" {
		v, err := strconv.ParseInt(s, 10, 64)
		if err != nil {
			Inconclusive("VERIF_SEED=%q is not an integer", s)
		}
		e.Seed = v
	} else {
		e.Seed = 1
	}
	if e.Scratch == "" {
		d, err := os.MkdirTemp("/tmp", "gpv-")
		if err != nil {
			Inconclusive("scratch: %v", err)
		}
		e.Scratch = d
	}
	if err := os.Chdir(e.Scratch); err != nil {
		Inconclusive("chdir scratch: %v", err)
	}
	e.Workers = runtime.NumCPU()
	if w := os.Getenv("VERIF_WORKERS"); w != "" {
		if v, err := strconv.Atoi(w); err == nil && v > 0 {
			e.Workers = v
		}
	}
	return e
}

// outDir is /verif/<kind> for runs against /repo. Runs against another tree (VERIF_REPO, used to
// try the checks on mutated copies) must not overwrite the committed evidence: they write to
// VERIF_OUT (default: the scratch directory).
func (e *Env) outDir(kind string) string {
	if e.Repo == "/repo" && os.Getenv("VERIF_OUT") == "" {
		return filepath.Join(e.Verif, kind)
	}
	base := os.Getenv("VERIF_OUT")
	if base == "" {
		base = e.Scratch
	}
	return filepath.Join(base, kind)
}

func (e *Env) Thorough() bool { return e.Tier == "thorough" }

// Pick returns q in the quick tier and t in the thorough tier.
func (e *Env) Pick(q, t int) int {
	if e.Thorough() {
		return t
	}
	return q
}

// Inconclusive ends the run with exit status 2: something in the machinery failed
// (build, TLC timeout, dead driver). It is never a verdict about the property.
func Inconclusive(format string, a ...interface{}) {
	fmt.Printf("INCONCLUSIVE "+format+"\n", a...)
	os.Exit(2)
}

// ---------------------------------------------------------------------------------------
// TLC

// TLCRun describes one TLC invocation on a module of /verif/spec.
type TLCRun struct {
	Dir      string            // sub-directory of spec/ holding the module (copied to scratch)
	Module   string            // module name (file Module.tla)
	Config   string            // cfg file name (in Dir)
	Extra    map[string]string // extra files written next to the module (name -> content), e.g. generated MC modules, ndjson inputs
	Simulate string            // if non-empty: argument of -simulate (e.g. "num=1000"); Depth must be set
	Depth    int
	Timeout  time.Duration
	Workers  int  // 0 = env.Workers
	Continue bool // -continue (collect every invariant violation instead of stopping at the first)
	Coverage bool // -coverage 1
	DFS      bool // depth-first queue (trace validation with inferred variables)
	Seed     int64
	// OnLine, if set, receives each PrintT'ed JSON record (already unquoted) as it is produced.
	OnLine func(rec []byte)
}

// TLCResult is what the harness reads back.
type TLCResult struct {
	Generated  int64
	Distinct   int64
	Depth      int
	Records    int      // PrintT(ToJson) lines seen
	Violations []string // "Invariant X is violated" etc.
	Errors     []string // evaluation errors
	Finished   bool     // "Model checking completed" / simulation finished
	Stdout     string   // tail of the output (for diagnostics)
	Wall       time.Duration
	ActionCov  map[string]int64 // with Coverage: action name -> number of states it generated
}

var (
	reStates   = regexp.MustCompile(`^(\d+) states generated, (\d+) distinct states found`)
	reDepth    = regexp.MustCompile(`^The depth of the complete state graph search is (\d+)`)
	reInv      = regexp.MustCompile(`^Error: (Invariant \S+ is violated.*|Action property \S+ is violated.*|Temporal properties were violated.*|Deadlock reached.*|Postcondition \S+ .*is false.*)`)
	reErr      = regexp.MustCompile(`^Error: (.*)`)
	reCov      = regexp.MustCompile(`^<(\w+) line \d+, col \d+ to line \d+, col \d+ of module (\w+)>: (\d+):(\d+)`)
	reProgress = regexp.MustCompile(`^Progress\(`)
)

// TLC copies the spec directory into a private scratch directory and runs TLC there.
func (e *Env) TLC(r TLCRun) (*TLCResult, error) {
	src := filepath.Join(e.Verif, "spec", r.Dir)
	work, err := os.MkdirTemp(e.Scratch, "tlc-")
	if err != nil {
		return nil, err
	}
	ents, err := os.ReadDir(src)
	if err != nil {
		return nil, err
	}
	for _, en := range ents {
		if en.IsDir() {
			continue
		}
		b, err := os.ReadFile(filepath.Join(src, en.Name()))
		if err != nil {
			return nil, err
		}
		if err := os.WriteFile(filepath.Join(work, en.Name()), b, 0o644); err != nil {
			return nil, err
		}
	}
	// shared modules live in spec/lib
	if lib, err := os.ReadDir(filepath.Join(e.Verif, "spec", "lib")); err == nil {
		for _, en := range lib {
			if _, err := os.Stat(filepath.Join(work, en.Name())); err == nil {
				continue
			}
			b, _ := os.ReadFile(filepath.Join(e.Verif, "spec", "lib", en.Name()))
			os.WriteFile(filepath.Join(work, en.Name()), b, 0o644)
		}
	}
	for name, content := range r.Extra {
		if err := os.WriteFile(filepath.Join(work, name), []byte(content), 0o644); err != nil {
			return nil, err
		}
	}
	workers := r.Workers
	if workers == 0 {
		workers = e.Workers
	}
	if r.Timeout == 0 {
		r.Timeout = 10 * time.Minute
	}
	args := []string{"-XX:+UseParallelGC", "-Djava.io.tmpdir=" + work}
	if r.DFS {
		args = append(args, "-Dtlc2.tool.queue.IStateQueue=StateDeque")
	}
	args = append(args, "-Xss512m", "-cp", "/opt/veriftools/tla/tla2tools.jar:/opt/veriftools/tla/CommunityModules-deps.jar", "tlc2.TLC",
		"-metadir", filepath.Join(work, "md"), "-workers", strconv.Itoa(workers), "-config", r.Config, "-noGenerateSpecTE")
	if r.Continue {
		args = append(args, "-continue")
	}
	if r.Coverage {
		args = append(args, "-coverage", "1")
	}
	if r.Simulate != "" {
		args = append(args, "-simulate", r.Simulate, "-depth", strconv.Itoa(r.Depth))
	}
	if r.Seed != 0 {
		args = append(args, "-seed", strconv.FormatInt(r.Seed, 10))
	}
	args = append(args, r.Module+".tla")
	release := acquireTLCSlot()
	defer release()
	cmd := exec.Command("java", args...)
	cmd.Dir = work
	cmd.Env = append(os.Environ(), "JAVA_TOOL_OPTIONS=")
	out, err := cmd.StdoutPipe()
	if err != nil {
		return nil, err
	}
	cmd.Stderr = cmd.Stdout
	start := time.Now()
	if err := cmd.Start(); err != nil {
		return nil, err
	}
	timer := time.AfterFunc(r.Timeout, func() { cmd.Process.Kill() })
	defer timer.Stop()
	res := &TLCResult{ActionCov: map[string]int64{}}
	var tail []string
	rd := bufio.NewReaderSize(out, 1<<20)
	for {
		line, err := rd.ReadBytes('\n')
		if len(line) > 0 {
			l := bytes.TrimRight(line, "\r\n")
			if len(l) > 1 && l[0] == '"' {
				var s string
				if json.Unmarshal(l, &s) == nil {
					res.Records++
					if r.OnLine != nil {
						r.OnLine([]byte(s))
					}
					continue
				}
			}
			ls := string(l)
			if m := reStates.FindStringSubmatch(ls); m != nil {
				res.Generated, _ = strconv.ParseInt(m[1], 10, 64)
				res.Distinct, _ = strconv.ParseInt(m[2], 10, 64)
			} else if m := reDepth.FindStringSubmatch(ls); m != nil {
				res.Depth, _ = strconv.Atoi(m[1])
			} else if m := reInv.FindStringSubmatch(ls); m != nil {
				res.Violations = append(res.Violations, m[1])
			} else if m := reErr.FindStringSubmatch(ls); m != nil {
				// the trace header that follows a violated invariant/property is not an error of its own
				if !strings.HasPrefix(m[1], "The behavior up to this point is") &&
					!strings.HasPrefix(m[1], "The following behavior constitutes a counter-example") {
					res.Errors = append(res.Errors, m[1])
				}
			} else if m := reCov.FindStringSubmatch(ls); m != nil {
				n, _ := strconv.ParseInt(m[3], 10, 64)
				res.ActionCov[m[1]] += n
			}
			if strings.HasPrefix(ls, "Model checking completed") || strings.HasPrefix(ls, "Finished in") {
				res.Finished = true
			}
			if !reProgress.MatchString(ls) {
				if len(ls) > 400 {
					ls = ls[:400] + "…"
				}
				tail = append(tail, ls)
				if len(tail) > 60 {
					tail = tail[1:]
				}
			}
		}
		if err != nil {
			break
		}
	}
	werr := cmd.Wait()
	res.Wall = time.Since(start)
	res.Stdout = strings.Join(tail, "\n")
	os.RemoveAll(work)
	if time.Since(start) >= r.Timeout {
		return res, fmt.Errorf("tlc %s/%s: timeout after %v", r.Dir, r.Module, r.Timeout)
	}
	if werr != nil && len(res.Violations) == 0 && len(res.Errors) == 0 && !res.Finished {
		return res, fmt.Errorf("tlc %s/%s: %v\n%s", r.Dir, r.Module, werr, res.Stdout)
	}
	return res, nil
}

// acquireTLCSlot limits the number of TLC JVMs running at once on this machine (all checks of all
// users share /tmp/gpv-tlc-slot-*): several checks started in parallel otherwise oversubscribe the
// cores so badly that TLC calls hit their time-outs. A single check never waits.
func acquireTLCSlot() func() {
	n := 3
	if v, err := strconv.Atoi(os.Getenv("VERIF_TLC_SLOTS")); err == nil && v > 0 {
		n = v
	}
	for {
		for i := 0; i < n; i++ {
			f, err := os.OpenFile(fmt.Sprintf("/tmp/gpv-tlc-slot-%d", i), os.O_CREATE|os.O_RDWR, 0o666)
			if err != nil {
				return func() {}
			}
			if syscall.Flock(int(f.Fd()), syscall.LOCK_EX|syscall.LOCK_NB) == nil {
				return func() { syscall.Flock(int(f.Fd()), syscall.LOCK_UN); f.Close() }
			}
			f.Close()
		}
		time.Sleep(300 * time.Millisecond)
	}
}

// MustTLC runs TLC and ends the run as inconclusive if TLC itself failed
// (timeout, parse error, evaluation error). Invariant violations are returned to the caller.
func (e *Env) MustTLC(r TLCRun) *TLCResult {
	res, err := e.TLC(r)
	if err != nil {
		Inconclusive("property=%s %v", e.ID, err)
	}
	if len(res.Errors) > 0 {
		Inconclusive("property=%s tlc %s/%s evaluation error: %s\n%s", e.ID, r.Dir, r.Module, res.Errors[0], res.Stdout)
	}
	return res
}

// ---------------------------------------------------------------------------------------
// known findings

type Finding struct {
	Property string `json:"property"`
	Key      string `json:"key"`    // exact key produced by the check (spec case partition)
	Status   string `json:"status"` // "open" | "fixed"
	Commit   string `json:"commit,omitempty"`
	What     string `json:"what"`
	Repro    string `json:"repro,omitempty"`
	Line     string `json:"line,omitempty"` // "fixed: property=<id> <commit> <what failed>" for fixed entries
}

type findingsFile struct {
	Findings []Finding `json:"findings"`
}

// loadFindings reads /verif/known-findings/<id>.json (one committed file per property).
func loadFindings(path, id string) map[string]Finding {
	m := map[string]Finding{}
	b, err := os.ReadFile(path)
	if err != nil {
		return m
	}
	var f findingsFile
	if err := json.Unmarshal(b, &f); err != nil {
		Inconclusive("known-findings/%s.json does not parse: %v", id, err)
	}
	for _, x := range f.Findings {
		if x.Property == id && x.Status == "open" { // a fixed entry suppresses nothing
			m[x.Key] = x
		}
	}
	return m
}

// ---------------------------------------------------------------------------------------
// report

type violation struct {
	Key    string      `json:"key"`
	Count  int         `json:"count"`
	Detail interface{} `json:"first_case"`
}

// Report accumulates what a run covered and what it found.
type Report struct {
	env   *Env
	mu    sync.Mutex
	known map[string]Finding
	viol  map[string]*violation
	order []string

	Level       string // evidence level
	Evaluations int64
	Distinct    int64 // distinct non-trivial cases (counted by the harness)
	Rule        string
	Samples     []interface{}
	States      int64
	Transitions int64
	Traces      int64 // traces/behaviours validated against the implementation
	Exhaustive  bool
	Extra       map[string]interface{}
	Assumptions []string
}

func NewReport(e *Env, level string) *Report {
	r := &Report{env: e, known: loadFindings(filepath.Join(e.Verif, "known-findings", e.ID+".json"), e.ID),
		viol: map[string]*violation{}, Level: level, Extra: map[string]interface{}{}}
	currentReport = r
	return r
}

var currentReport *Report

// Vacuous ends a run in which a required part of the explored space never occurred.  That is a failure of the
// machinery (exit 2) - unless the run already recorded violations that are not known findings: a defect that
// breaks whole families of cases (programs that no longer complete, classes that are no longer created) also
// empties the partitions that come after it, and the violations are the verdict then, not the vacuity.
func Vacuous(format string, a ...interface{}) {
	if r := currentReport; r != nil {
		r.mu.Lock()
		n := 0
		for k := range r.viol {
			if _, ok := r.known[k]; !ok {
				n++
			}
		}
		r.mu.Unlock()
		if n > 0 {
			fmt.Printf("NOTE "+format+" (not judged: %d violation keys recorded)\n", append(a, n)...)
			r.Finish()
		}
	}
	Inconclusive(format, a...)
}

// Violation records one divergence between the real code and the specification, keyed by the
// specification's case partition. Only the first case of each key is kept in full.
func (r *Report) Violation(key string, detail interface{}) {
	r.mu.Lock()
	defer r.mu.Unlock()
	v := r.viol[key]
	if v == nil {
		v = &violation{Key: key, Detail: detail}
		r.viol[key] = v
		r.order = append(r.order, key)
	}
	v.Count++
}

func (r *Report) Sample(s interface{}) {
	r.mu.Lock()
	defer r.mu.Unlock()
	if len(r.Samples) < 5 {
		r.Samples = append(r.Samples, s)
	}
}

func (r *Report) AddTLC(t *TLCResult) {
	r.mu.Lock()
	defer r.mu.Unlock()
	r.States += t.Distinct
	r.Transitions += t.Generated
}

func (r *Report) NumViolationKeys() int {
	r.mu.Lock()
	defer r.mu.Unlock()
	return len(r.viol)
}

// Finish writes the evidence file, prints KNOWN-FINDING / VIOLATION lines and exits.
func (r *Report) Finish() {
	e := r.env
	sort.Strings(r.order)
	newV := 0
	var knownHit []string
	for _, k := range r.order {
		v := r.viol[k]
		if f, ok := r.known[k]; ok {
			fmt.Printf("KNOWN-FINDING: property=%s %s  [%s] x%d\n", e.ID, f.What, k, v.Count)
			knownHit = append(knownHit, k)
			continue
		}
		newV++
		h := sha1.Sum([]byte(k))
		dir := filepath.Join(e.outDir("replays"), e.ID)
		os.MkdirAll(dir, 0o755)
		path := filepath.Join(dir, hex.EncodeToString(h[:6])+".json")
		b, _ := json.MarshalIndent(map[string]interface{}{"property": e.ID, "key": k, "count": v.Count, "case": v.Detail,
			"tier": e.Tier, "seed": e.Seed}, "", " ")
		os.WriteFile(path, b, 0o644)
		fmt.Printf("VIOLATION property=%s replay=%s key=%s x%d\n", e.ID, path, k, v.Count)
	}
	if e.Replay == "" {
		cov := map[string]interface{}{
			"evaluations":         r.Evaluations,
			"distinct_nontrivial": r.Distinct,
			"rule":                r.Rule,
			"samples":             r.Samples,
			"exhaustive":          r.Exhaustive,
			"known_findings_hit":  knownHit,
		}
		if r.States > 0 {
			cov["states"] = r.States
			cov["transitions"] = r.Transitions
			cov["traces_validated_against_impl"] = r.Traces
		}
		for k, v := range r.Extra {
			cov[k] = v
		}
		if len(r.Samples) == 0 {
			cov["samples"] = []interface{}{"(no case recorded)"}
		}
		ev := map[string]interface{}{
			"property_id": e.ID, "tier": e.Tier, "seed": e.Seed, "level": r.Level, "coverage": cov,
			"assumptions": r.Assumptions, "wall_s": time.Since(e.Start).Seconds(), "violations": newV,
		}
		b, _ := json.MarshalIndent(ev, "", " ")
		os.MkdirAll(e.outDir("evidence"), 0o755)
		if err := os.WriteFile(filepath.Join(e.outDir("evidence"), e.ID+".json"), append(b, '\n'), 0o644); err != nil {
			Inconclusive("cannot write evidence: %v", err)
		}
	}
	fmt.Printf("SUMMARY property=%s tier=%s seed=%d evaluations=%d distinct=%d states=%d traces=%d known=%d new=%d wall=%.1fs\n",
		e.ID, e.Tier, e.Seed, r.Evaluations, r.Distinct, r.States, r.Traces, len(knownHit), newV, time.Since(e.Start).Seconds())
	if newV > 0 {
		os.Exit(1)
	}
	os.Exit(0)
}

// ---------------------------------------------------------------------------------------
// small helpers

// ReadNDJSON calls f for each line of an ndjson stream.
func ReadNDJSON(rd io.Reader, f func([]byte) error) error {
	sc := bufio.NewScanner(rd)
	sc.Buffer(make([]byte, 1<<20), 1<<28)
	for sc.Scan() {
		if len(bytes.TrimSpace(sc.Bytes())) == 0 {
			continue
		}
		if err := f(sc.Bytes()); err != nil {
			return err
		}
	}
	return sc.Err()
}

// TrimKey shortens free text that becomes part of a finding key.
func TrimKey(s string, n int) string {
	s = strings.Join(strings.Fields(s), " ")
	if len(s) > n {
		s = s[:n]
	}
	return s
}
