------------------------------- MODULE PyExprSyntax -------------------------------
(* C01 -- concrete syntax of the trees of PyExpr:
     Render  source text with exactly the parentheses the precedence/associativity table of the
             Python 3.4 language reference (section 6.15 and the grammar of 6.x) makes necessary;
     Dump    the abstract syntax tree in the format of ast.dump (what the real parser must build);
     Orders  the evaluation orders "left to right, right-hand side before targets" as sequences of leaf ids;
     Must    the leaves no short circuit / unselected branch can skip.
   Orders and Must are an independent statement of the order rules; PyExprGen checks Eval against them. *)
EXTENDS PyExpr

\* ------------------------------------------------------------------------------ constructors
NoneN == [k |-> "none"]
Leaf(id, v) == [k |-> "leaf", id |-> id, v |-> v, h |-> VNone]
LeafL(id) == [k |-> "leaf", id |-> id, v |-> VRef(id), h |-> VList(<<VInt(10), VInt(20), VInt(30)>>)]
LeafO(id) == [k |-> "leaf", id |-> id, v |-> VRef(id), h |-> VObj(VInt(7))]
\* a mutable set object (members: small ints, kept in ascending order)
LeafS(id, xs) == [k |-> "leaf", id |-> id, v |-> VRef(id), h |-> VSet(xs)]
Name(id) == [k |-> "name", id |-> id]
Bin(op, l, r) == [k |-> "bin", op |-> op, l |-> l, r |-> r]
Un(op, x) == [k |-> "un", op |-> op, x |-> x]
BoolE(op, xs) == [k |-> "bool", op |-> op, xs |-> xs]
Cmp(ops, xs) == [k |-> "cmp", ops |-> ops, xs |-> xs]
IfE(a, t, b) == [k |-> "ife", test |-> t, a |-> a, b |-> b]
Tup(xs) == [k |-> "tup", xs |-> xs]
Lst(xs) == [k |-> "list", xs |-> xs]
SetD(xs) == [k |-> "set", xs |-> xs]
DictD(ks, vs) == [k |-> "dict", ks |-> ks, vs |-> vs]
Idx(x, i) == [k |-> "idx", x |-> x, i |-> i]
Slc(x, lo, hi, st) == [k |-> "slice", x |-> x, lo |-> lo, hi |-> hi, st |-> st]
Attr(x) == [k |-> "attr", x |-> x]
Lam(ps, ds, body) == [k |-> "lam", ps |-> ps, ds |-> ds, body |-> body]
Call(f, args) == [k |-> "call", f |-> f, args |-> args]
APos(e) == [ak |-> "pos", name |-> "", e |-> e]
AKw(nm, e) == [ak |-> "kw", name |-> nm, e |-> e]
AStar(e) == [ak |-> "star", name |-> "", e |-> e]
ADStar(e) == [ak |-> "dstar", name |-> "", e |-> e]
Assign(ts, v) == [k |-> "assign", ts |-> ts, v |-> v]
Aug(op, t, v) == [k |-> "aug", op |-> op, t |-> t, v |-> v]
IfTest(t) == [k |-> "iftest", test |-> t]

\* ------------------------------------------------------------------------------ traversal
RECURSIVE FlatSeq(_)
FlatSeq(ss) == IF ss = <<>> THEN <<>> ELSE Head(ss) \o FlatSeq(Tail(ss))

Kids(e) ==
    CASE e.k \in {"leaf", "name", "none"} -> <<>>
      [] e.k = "bin" -> <<e.l, e.r>>
      [] e.k \in {"un", "attr"} -> <<e.x>>
      [] e.k \in {"bool", "cmp", "tup", "list", "set"} -> e.xs
      [] e.k = "ife" -> <<e.a, e.test, e.b>>
      [] e.k = "dict" -> FlatSeq([i \in 1..Len(e.ks) |-> <<e.ks[i], e.vs[i]>>])
      [] e.k = "idx" -> <<e.x, e.i>>
      [] e.k = "slice" -> <<e.x, e.lo, e.hi, e.st>>
      [] e.k = "lam" -> e.ds \o <<e.body>>
      [] e.k = "call" -> <<e.f>> \o [i \in 1..Len(e.args) |-> e.args[i].e]
      [] e.k = "assign" -> e.ts \o <<e.v>>
      [] e.k = "aug" -> <<e.t, e.v>>
      [] e.k = "iftest" -> <<e.test>>

RECURSIVE LeavesOf(_)
LeavesOf(e) == IF e.k = "leaf" THEN <<e>>
               ELSE LET ks == Kids(e) IN FlatSeq([i \in 1..Len(ks) |-> LeavesOf(ks[i])])

\* ------------------------------------------------------------------------------ precedence table
\* binding strength, weakest first (language reference 6.15, "Operator precedence")
BinPrec(op) == CASE op = "|" -> 7 [] op = "^" -> 8 [] op = "&" -> 9 [] op \in {"<<", ">>"} -> 10
                 [] op \in {"+", "-"} -> 11 [] op \in {"*", "/", "//", "%"} -> 12 [] op = "**" -> 14
Prec(e) ==
    CASE e.k \in {"leaf", "name", "none", "list", "set", "dict"} -> 16
      [] e.k = "tup" -> IF e.xs = <<>> THEN 16 ELSE 0        \* a bare expression list
      [] e.k = "lam" -> 1
      [] e.k = "ife" -> 2
      [] e.k = "bool" -> IF e.op = "or" THEN 3 ELSE 4
      [] e.k = "un" -> IF e.op = "not" THEN 5 ELSE 13
      [] e.k = "cmp" -> 6
      [] e.k = "bin" -> BinPrec(e.op)
      [] e.k \in {"idx", "slice", "attr", "call"} -> 15
      [] e.k \in {"assign", "aug", "iftest"} -> 0           \* statements are never operands
\* what each operand position requires (the grammar's nonterminal at that position):
\*   binary operators are left-associative: left operand same level, right operand one tighter;
\*   ** : power ::= primary ["**" u_expr]   (binds tighter than a unary operator on its left, weaker on its right)
\*   comparisons do not nest without parentheses; conditional: or_test "if" or_test "else" expression
ReqBinL(op) == IF op = "**" THEN 15 ELSE BinPrec(op)
ReqBinR(op) == IF op = "**" THEN 13 ELSE BinPrec(op) + 1

BinName(op) == CASE op = "+" -> "Add" [] op = "-" -> "Sub" [] op = "*" -> "Mult" [] op = "/" -> "Div" [] op = "//" -> "FloorDiv"
                 [] op = "%" -> "Mod" [] op = "**" -> "Pow" [] op = "<<" -> "LShift" [] op = ">>" -> "RShift"
                 [] op = "&" -> "BitAnd" [] op = "|" -> "BitOr" [] op = "^" -> "BitXor"
UnName(op) == CASE op = "-" -> "USub" [] op = "+" -> "UAdd" [] op = "~" -> "Invert" [] op = "not" -> "Not"
CmpName(op) == CASE op = "<" -> "Lt" [] op = "<=" -> "LtE" [] op = "==" -> "Eq" [] op = "!=" -> "NotEq" [] op = ">" -> "Gt"
                 [] op = ">=" -> "GtE" [] op = "is" -> "Is" [] op = "isnot" -> "IsNot" [] op = "in" -> "In" [] op = "notin" -> "NotIn"
CmpText(op) == CASE op = "isnot" -> "is not" [] op = "notin" -> "not in" [] OTHER -> op

RECURSIVE JoinStr(_, _)
JoinStr(ss, sep) == IF ss = <<>> THEN "" ELSE IF Len(ss) = 1 THEN ss[1] ELSE ss[1] \o sep \o JoinStr(Tail(ss), sep)

\* ------------------------------------------------------------------------------ Render
RECURSIVE R(_, _), R0(_)
R(e, req) == IF Prec(e) < req THEN "(" \o R0(e) \o ")" ELSE R0(e)
R0(e) ==
    CASE e.k = "leaf" -> "e(" \o ToString(e.id) \o ")"
      [] e.k = "name" -> e.id
      [] e.k = "none" -> ""
      [] e.k = "bin" -> R(e.l, ReqBinL(e.op)) \o " " \o e.op \o " " \o R(e.r, ReqBinR(e.op))
      [] e.k = "un" -> IF e.op = "not" THEN "not " \o R(e.x, 5) ELSE e.op \o R(e.x, 13)
      [] e.k = "bool" -> JoinStr([i \in 1..Len(e.xs) |-> R(e.xs[i], IF e.op = "and" THEN 5 ELSE 4)], " " \o e.op \o " ")
      [] e.k = "cmp" -> R(e.xs[1], 7) \o JoinStr([i \in 1..Len(e.ops) |-> " " \o CmpText(e.ops[i]) \o " " \o R(e.xs[i + 1], 7)], "")
      [] e.k = "ife" -> R(e.a, 3) \o " if " \o R(e.test, 3) \o " else " \o R(e.b, 1)
      [] e.k = "tup" -> IF e.xs = <<>> THEN "()"
                        ELSE IF Len(e.xs) = 1 THEN R(e.xs[1], 1) \o ","
                        ELSE JoinStr([i \in 1..Len(e.xs) |-> R(e.xs[i], 1)], ", ")
      [] e.k = "list" -> "[" \o JoinStr([i \in 1..Len(e.xs) |-> R(e.xs[i], 1)], ", ") \o "]"
      [] e.k = "set" -> "{" \o JoinStr([i \in 1..Len(e.xs) |-> R(e.xs[i], 1)], ", ") \o "}"
      [] e.k = "dict" -> "{" \o JoinStr([i \in 1..Len(e.ks) |-> R(e.ks[i], 1) \o ": " \o R(e.vs[i], 1)], ", ") \o "}"
      [] e.k = "idx" -> R(e.x, 15) \o "[" \o R(e.i, 0) \o "]"
      [] e.k = "slice" -> R(e.x, 15) \o "[" \o R(e.lo, 1) \o ":" \o R(e.hi, 1) \o (IF e.st.k = "none" THEN "" ELSE ":" \o R(e.st, 1)) \o "]"
      [] e.k = "attr" -> R(e.x, 15) \o ".a"
      [] e.k = "lam" ->
           LET np == Len(e.ps)
               nd == Len(e.ds)
               par(i) == IF i > np - nd THEN e.ps[i] \o "=" \o R(e.ds[i - (np - nd)], 1) ELSE e.ps[i]
           IN "lambda" \o (IF np = 0 THEN "" ELSE " " \o JoinStr([i \in 1..np |-> par(i)], ", ")) \o ": " \o R(e.body, 1)
      [] e.k = "call" ->
           LET arg(a) == CASE a.ak = "pos" -> R(a.e, 1) [] a.ak = "kw" -> a.name \o "=" \o R(a.e, 1)
                           [] a.ak = "star" -> "*" \o R(a.e, 1) [] a.ak = "dstar" -> "**" \o R(a.e, 1)
           IN R(e.f, 15) \o "(" \o JoinStr([i \in 1..Len(e.args) |-> arg(e.args[i])], ", ") \o ")"
      [] e.k = "assign" -> JoinStr([i \in 1..Len(e.ts) |-> R(e.ts[i], 0)], " = ") \o " = " \o R(e.v, 0)
      [] e.k = "aug" -> R(e.t, 0) \o " " \o e.op \o "= " \o R(e.v, 0)
      [] e.k = "iftest" -> "if " \o R(e.test, 1) \o ":\n c = 1\nelse:\n c = 2"
Render(e) == R(e, 0)

\* ------------------------------------------------------------------------------ Dump (ast.dump format; a leaf is @id)
RECURSIVE D(_, _)
DList(es, ctx) == "[" \o JoinStr([i \in 1..Len(es) |-> D(es[i], ctx)], ", ") \o "]"
D(e, ctx) ==
    CASE e.k = "leaf" -> "@" \o ToString(e.id)
      [] e.k = "name" -> "Name(id='" \o e.id \o "', ctx=" \o ctx \o ")"
      [] e.k = "none" -> "None"
      [] e.k = "bin" -> "BinOp(left=" \o D(e.l, "Load()") \o ", op=" \o BinName(e.op) \o "(), right=" \o D(e.r, "Load()") \o ")"
      [] e.k = "un" -> "UnaryOp(op=" \o UnName(e.op) \o "(), operand=" \o D(e.x, "Load()") \o ")"
      [] e.k = "bool" -> "BoolOp(op=" \o (IF e.op = "and" THEN "And" ELSE "Or") \o "(), values=" \o DList(e.xs, "Load()") \o ")"
      [] e.k = "cmp" -> "Compare(left=" \o D(e.xs[1], "Load()") \o ", ops=[" \o JoinStr([i \in 1..Len(e.ops) |-> CmpName(e.ops[i]) \o "()"], ", ")
                        \o "], comparators=" \o DList(Tail(e.xs), "Load()") \o ")"
      [] e.k = "ife" -> "IfExp(test=" \o D(e.test, "Load()") \o ", body=" \o D(e.a, "Load()") \o ", orelse=" \o D(e.b, "Load()") \o ")"
      [] e.k = "tup" -> "Tuple(elts=" \o DList(e.xs, ctx) \o ", ctx=" \o ctx \o ")"
      [] e.k = "list" -> "List(elts=" \o DList(e.xs, ctx) \o ", ctx=" \o ctx \o ")"
      [] e.k = "set" -> "Set(elts=" \o DList(e.xs, "Load()") \o ")"
      [] e.k = "dict" -> "Dict(keys=" \o DList(e.ks, "Load()") \o ", values=" \o DList(e.vs, "Load()") \o ")"
      [] e.k = "idx" -> "Subscript(value=" \o D(e.x, "Load()") \o ", slice=Index(value=" \o D(e.i, "Load()") \o "), ctx=" \o ctx \o ")"
      [] e.k = "slice" -> "Subscript(value=" \o D(e.x, "Load()") \o ", slice=Slice(lower=" \o D(e.lo, "Load()") \o ", upper=" \o D(e.hi, "Load()")
                          \o ", step=" \o D(e.st, "Load()") \o "), ctx=" \o ctx \o ")"
      [] e.k = "attr" -> "Attribute(value=" \o D(e.x, "Load()") \o ", attr='a', ctx=" \o ctx \o ")"
      [] e.k = "lam" -> "Lambda(args=arguments(args=[" \o JoinStr([i \in 1..Len(e.ps) |-> "arg(arg='" \o e.ps[i] \o "', annotation=None)"], ", ")
                        \o "], vararg=None, kwonlyargs=[], kw_defaults=[], kwarg=None, defaults=" \o DList(e.ds, "Load()") \o "), body=" \o D(e.body, "Load()") \o ")"
      [] e.k = "call" ->
           LET pos == SelectSeq(e.args, LAMBDA a : a.ak = "pos")
               kws == SelectSeq(e.args, LAMBDA a : a.ak = "kw")
               st == SelectSeq(e.args, LAMBDA a : a.ak = "star")
               ds == SelectSeq(e.args, LAMBDA a : a.ak = "dstar")
           IN "Call(func=" \o D(e.f, "Load()") \o ", args=" \o DList([i \in 1..Len(pos) |-> pos[i].e], "Load()")
              \o ", keywords=[" \o JoinStr([i \in 1..Len(kws) |-> "keyword(arg='" \o kws[i].name \o "', value=" \o D(kws[i].e, "Load()") \o ")"], ", ")
              \o "], starargs=" \o (IF st = <<>> THEN "None" ELSE D(st[1].e, "Load()"))
              \o ", kwargs=" \o (IF ds = <<>> THEN "None" ELSE D(ds[1].e, "Load()")) \o ")"
      [] e.k = "assign" -> "Module(body=[Assign(targets=" \o DList(e.ts, "Store()") \o ", value=" \o D(e.v, "Load()") \o ")])"
      [] e.k = "aug" -> "Module(body=[AugAssign(target=" \o D(e.t, "Store()") \o ", op=" \o BinName(e.op) \o "(), value=" \o D(e.v, "Load()") \o ")])"
      [] e.k = "iftest" -> "Module(body=[If(test=" \o D(e.test, "Load()")
                           \o ", body=[Assign(targets=[Name(id='c', ctx=Store())], value=Num(n=1))], orelse=[Assign(targets=[Name(id='c', ctx=Store())], value=Num(n=2))])])"
Dump(e, isStmt) == IF isStmt THEN D(e, "Load()") ELSE "Expression(body=" \o D(e, "Load()") \o ")"

\* ------------------------------------------------------------------------------ Orders / Must
CatS(S, T) == { s \o t : s \in S, t \in T }
RECURSIVE CatAll(_)
CatAll(Ss) == IF Ss = <<>> THEN { <<>> } ELSE CatS(Head(Ss), CatAll(Tail(Ss)))

RECURSIVE Orders(_)
Orders(e) ==
    CASE e.k = "leaf" -> { <<e.id>> }
      [] e.k \in {"name", "none"} -> { <<>> }
      [] e.k = "ife" -> CatAll(<<Orders(e.test), Orders(e.a), Orders(e.b)>>)
      [] e.k = "dict" -> CatAll([i \in 1..Len(e.ks) |-> CatS(Orders(e.ks[i]), Orders(e.vs[i]))])
                         \cup CatAll([i \in 1..Len(e.ks) |-> CatS(Orders(e.vs[i]), Orders(e.ks[i]))])
      [] e.k = "lam" -> CatAll([i \in 1..Len(e.ds) |-> Orders(e.ds[i])])
      [] e.k = "call" ->
           LET head == IF e.f.k = "lam" THEN Orders(e.f) ELSE Orders(e.f)
               body == IF e.f.k = "lam" THEN Orders(e.f.body) ELSE { <<>> }
               argsIn(order) == CatAll([i \in 1..Len(order) |-> Orders(e.args[order[i]].e)])
           IN UNION { CatAll(<<head, argsIn(order), body>>) : order \in ArgOrders(e.args) }
      [] e.k = "assign" -> CatS(Orders(e.v), CatAll([i \in 1..Len(e.ts) |-> Orders(e.ts[i])]))   \* right-hand side first
      [] e.k = "aug" -> CatS(Orders(e.t), Orders(e.v))                                            \* target operands, then the value
      [] OTHER -> LET ks == Kids(e) IN CatAll([i \in 1..Len(ks) |-> Orders(ks[i])])               \* source order = left to right

RECURSIVE Must(_)
Must(e) ==
    CASE e.k = "leaf" -> { e.id }
      [] e.k \in {"name", "none"} -> {}
      [] e.k = "bool" -> Must(e.xs[1])
      [] e.k = "cmp" -> Must(e.xs[1]) \cup Must(e.xs[2])
      [] e.k = "ife" -> Must(e.test)
      [] e.k = "lam" -> UNION { Must(e.ds[i]) : i \in 1..Len(e.ds) }
      [] e.k = "call" -> Must(e.f) \cup UNION { Must(e.args[i].e) : i \in 1..Len(e.args) }
                         \cup (IF e.f.k = "lam" THEN Must(e.f.body) ELSE {})
      [] OTHER -> LET ks == Kids(e) IN UNION { Must(ks[i]) : i \in 1..Len(ks) }

RECURSIVE IsSubseq(_, _)
IsSubseq(a, b) == IF a = <<>> THEN TRUE ELSE IF b = <<>> THEN FALSE
                  ELSE IF Head(a) = Head(b) THEN IsSubseq(Tail(a), Tail(b)) ELSE IsSubseq(a, Tail(b))
NoDup(s) == \A i, j \in 1..Len(s) : i # j => s[i] # s[j]

\* ------------------------------------------------------------------------------ JSON-able form of values
RECURSIVE J(_)
J(v) == CASE v.t = "int" -> <<"i", v.n>>
          [] v.t = "bool" -> <<"b", v.n>>
          [] v.t = "float" -> <<"f", v.n, v.d>>
          [] v.t = "none" -> <<"N">>
          [] v.t = "str" -> <<"s", v.s>>
          [] v.t = "list" -> <<"l", [i \in 1..Len(v.xs) |-> J(v.xs[i])]>>
          [] v.t = "tuple" -> <<"t", [i \in 1..Len(v.xs) |-> J(v.xs[i])]>>
          [] v.t = "set" -> <<"S", [i \in 1..Len(v.xs) |-> J(v.xs[i])]>>
          [] v.t = "dict" -> <<"D", [i \in 1..Len(v.xs) |-> <<J(v.xs[i].xs[1]), J(v.xs[i].xs[2])>>]>>
          [] v.t = "ref" -> <<"r", v.n>>
          [] v.t = "fn" -> <<"F">>
          [] v.t = "obj" -> <<"O", J(v.xs[1])>>
====================================================================================
