SPECIFICATION Spec
CONSTANTS
  Mods = {"ma", "mb", "mc"}
  Families = {"graph3", "diamond", "flat3", "modname", "sample", "late"}
  AssumeAll = TRUE
INVARIANTS TypeOK OnlyAvailable RunOnce NoReentry OneObject Provenance StarRespectsUnderscore Terminates Usable Emit
CHECK_DEADLOCK FALSE
