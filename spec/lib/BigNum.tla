------------------------------- MODULE BigNum -------------------------------
(* Exact integers for TLC, whose own integers are 32-bit Java ints (overflow is an error).  *)
(*                                                                                          *)
(* A natural is a little-endian sequence of base-2^15 digits without leading (most          *)
(* significant) zero digits; <<>> is 0.  Digit products (< 2^30) and carries fit a TLC      *)
(* integer.  A signed integer is a record [s |-> 1 | -1, m |-> natural]; zero has s = 1.    *)
(*                                                                                          *)
(* Every loop over digits is a FoldLeft (iterative in TLC: deep RECURSIVE evaluation        *)
(* overflows the JVM stack); the only recursions left have depth <= 16.  Operator names     *)
(* are module specific (CommunityModules define And, Or, Xor, Max, Min, Last, Reverse ...). *)
(*                                                                                          *)
(* Shared by C07 (PyInt) and C15 (PyFloat).  The algebraic laws of this module are          *)
(* model-checked by spec/C07/PyIntLaws.tla.                                                 *)
EXTENDS Integers, Sequences, Bitwise, SequencesExt

B == 32768
BITS == 15
One == <<1>>
Idx(n) == [i \in 1..n |-> i]
MaxI(x, y) == IF x > y THEN x ELSE y
MinI(x, y) == IF x < y THEN x ELSE y
Dg(a, i) == IF i <= Len(a) THEN a[i] ELSE 0
Pow2(k) == 2 ^ k                                   \* k <= 30

(* ------------------------------ naturals ------------------------------ *)
\* strip most significant zero digits
NormN(a) == LET k == FoldLeft(LAMBDA acc, i : IF a[i] # 0 THEN i ELSE acc, 0, Idx(Len(a)))
            IN IF k = Len(a) THEN a ELSE SubSeq(a, 1, k)

\* three-way comparison of normalised naturals: the most significant differing digit decides
CmpN(a, b) == IF Len(a) < Len(b) THEN -1 ELSE IF Len(a) > Len(b) THEN 1
              ELSE FoldLeft(LAMBDA c, i : IF a[i] < b[i] THEN -1 ELSE IF a[i] > b[i] THEN 1 ELSE c, 0, Idx(Len(a)))

AddN(a, b) == LET st == FoldLeft(LAMBDA s, i : LET t == Dg(a, i) + Dg(b, i) + s[2] IN <<Append(s[1], t % B), t \div B>>,
                                 <<<<>>, 0>>, Idx(MaxI(Len(a), Len(b))))
              IN IF st[2] = 0 THEN st[1] ELSE Append(st[1], st[2])

\* a - b, requires a >= b
SubN(a, b) == NormN(FoldLeft(LAMBDA s, i : LET t == a[i] - Dg(b, i) - s[2] IN <<Append(s[1], (t + B) % B), IF t < 0 THEN 1 ELSE 0>>,
                             <<<<>>, 0>>, Idx(Len(a)))[1])

\* a * d for a digit 0 <= d < B
MulSmall(a, d) == IF d = 0 \/ a = <<>> THEN <<>>
                  ELSE LET st == FoldLeft(LAMBDA s, i : LET p == a[i] * d + s[2] IN <<Append(s[1], p % B), p \div B>>,
                                          <<<<>>, 0>>, Idx(Len(a)))
                       IN IF st[2] = 0 THEN st[1] ELSE Append(st[1], st[2])

\* shifts by whole digits
ShlDigits(a, k) == IF a = <<>> \/ k = 0 THEN a ELSE [j \in 1..k |-> 0] \o a
ShrDigits(a, k) == IF k >= Len(a) THEN <<>> ELSE SubSeq(a, k + 1, Len(a))

\* schoolbook multiplication, most significant digit of b first: acc := acc * B + a * digit
MulN(a, b) == IF a = <<>> \/ b = <<>> THEN <<>>
              ELSE FoldLeft(LAMBDA acc, j : AddN(ShlDigits(acc, 1), MulSmall(a, b[Len(b) + 1 - j])), <<>>, Idx(Len(b)))

\* division by a small number 0 < d < B, most significant digit first; <<quotient, remainder (TLC int)>>
DivModSmall(a, d) == LET st == FoldLeft(LAMBDA s, j : LET cur == s[2] * B + a[Len(a) + 1 - j] IN <<<<cur \div d>> \o s[1], cur % d>>,
                                        <<<<>>, 0>>, Idx(Len(a)))
                     IN <<NormN(st[1]), st[2]>>

\* shifts by bits
ShlN(a, n) == ShlDigits(MulSmall(a, Pow2(n % BITS)), n \div BITS)
ShrN(a, n) == DivModSmall(ShrDigits(a, n \div BITS), Pow2(n % BITS))[1]

\* long division (Knuth D): divisor and dividend are scaled by d so that the divisor's top digit is >= B/2;
\* then the estimate qhat from the two top digits of the running remainder satisfies q <= qhat <= q + 2, and
\* the exact quotient digit (the largest q with q * b <= r) is found by search in qhat-2 .. qhat  (depth 2)
RECURSIVE QDigit(_, _, _, _)
QDigit(r, b, lo, hi) == IF lo = hi THEN lo
                        ELSE LET mid == (lo + hi + 1) \div 2 IN
                             IF CmpN(MulSmall(b, mid), r) <= 0 THEN QDigit(r, b, mid, hi) ELSE QDigit(r, b, lo, mid - 1)
\* <<quotient, remainder>> for b # <<>>
DivModN(a, b) == IF CmpN(a, b) < 0 THEN <<<<>>, a>>
                 ELSE IF Len(b) = 1 THEN LET x == DivModSmall(a, b[1]) IN <<x[1], IF x[2] = 0 THEN <<>> ELSE <<x[2]>>>>
                 ELSE LET d == B \div (b[Len(b)] + 1)
                          an == MulSmall(a, d)
                          bn == MulSmall(b, d)
                          nb == Len(bn)
                          st == FoldLeft(LAMBDA s, j : LET cur == NormN(<<an[Len(an) + 1 - j]>> \o s[2])
                                                           qhat == MinI(B - 1, (Dg(cur, nb + 1) * B + Dg(cur, nb)) \div bn[nb])
                                                           q == IF CmpN(cur, bn) < 0 THEN 0 ELSE QDigit(cur, bn, MaxI(1, qhat - 2), qhat)
                                                       IN <<<<q>> \o s[1], IF q = 0 THEN cur ELSE SubN(cur, MulSmall(bn, q))>>,
                                         <<<<>>, <<>>>>, Idx(Len(an)))
                      IN <<NormN(st[1]), DivModSmall(st[2], d)[1]>>

\* number of significant bits
RECURSIVE BitLenSmall(_)
BitLenSmall(d) == IF d = 0 THEN 0 ELSE 1 + BitLenSmall(d \div 2)
BitLen(a) == IF a = <<>> THEN 0 ELSE (Len(a) - 1) * BITS + BitLenSmall(a[Len(a)])
IsOddN(a) == a # <<>> /\ a[1] % 2 = 1
BitAt(a, i) == (Dg(a, (i \div BITS) + 1) \div Pow2(i % BITS)) % 2      \* bit i (0 = least significant)

\* digit-wise boolean operations on naturals
BitOpN(op(_, _), a, b) == NormN([i \in 1..MaxI(Len(a), Len(b)) |-> op(Dg(a, i), Dg(b, i))])
AndDigit(x, y) == x & y
OrDigit(x, y) == x | y
XorDigit(x, y) == x ^^ y
AndN(a, b) == BitOpN(AndDigit, a, b)
OrN(a, b) == BitOpN(OrDigit, a, b)
XorN(a, b) == BitOpN(XorDigit, a, b)

\* a natural from a small TLC integer 0 <= n < 2^30, and back (requires Len(a) <= 2)
NatOfInt(n) == NormN(<<n % B, n \div B>>)
IntOfNat(a) == Dg(a, 1) + Dg(a, 2) * B
IsSmallN(a) == Len(a) <= 2

\* a ^ e for a small TLC exponent e >= 0 (depth log2 e)
RECURSIVE PowN(_, _)
PowN(a, e) == IF e = 0 THEN One ELSE LET h == PowN(a, e \div 2) hh == MulN(h, h) IN IF e % 2 = 0 THEN hh ELSE MulN(hh, a)

\* modular power of naturals (m # 0): right-to-left square and multiply folded over the exponent's bits
BitsOfN(e) == [i \in 1..BitLen(e) |-> BitAt(e, i - 1)]
PowModN(a, e, m) == FoldLeft(LAMBDA st, bit : << IF bit = 1 THEN DivModN(MulN(st[1], st[2]), m)[2] ELSE st[1],
                                                 DivModN(MulN(st[2], st[2]), m)[2] >>,
                             << DivModN(One, m)[2], DivModN(a, m)[2] >>, BitsOfN(e))[1]

\* positional notation: digit values most significant first, 2 <= base <= 36
FromDigits(ds, base) == FoldLeft(LAMBDA acc, d : AddN(MulSmall(acc, base), IF d = 0 THEN <<>> ELSE <<d>>), <<>>, ds)
\* at most Len(a) * 15 output digits (base 2); the fold runs that many steps and idles once the rest is zero
ToDigits(a, base) == IF a = <<>> THEN <<0>>
                     ELSE FoldLeft(LAMBDA s, i : IF s[2] = <<>> THEN s
                                                 ELSE LET qr == DivModSmall(s[2], base) IN <<<<qr[2]>> \o s[1], qr[1]>>,
                                   <<<<>>, a>>, Idx(Len(a) * (IF base = 2 THEN 15 ELSE IF base < 8 THEN 10 ELSE 5)))[1]

(* ------------------------------ signed integers ------------------------------ *)
Z(s, m) == IF m = <<>> THEN [s |-> 1, m |-> <<>>] ELSE [s |-> s, m |-> m]
ZZero == Z(1, <<>>)
ZOne == Z(1, One)
ZOfInt(n) == IF n < 0 THEN Z(-1, NatOfInt(-n)) ELSE Z(1, NatOfInt(n))      \* |n| < 2^30
ZIsZero(x) == x.m = <<>>
ZSign(x) == IF x.m = <<>> THEN 0 ELSE x.s
ZNeg(x) == Z(-x.s, x.m)
ZAbs(x) == Z(1, x.m)
ZCmp(x, y) == IF x.s # y.s THEN (IF x.s < y.s THEN -1 ELSE 1) ELSE x.s * CmpN(x.m, y.m)
ZAdd(x, y) == IF x.s = y.s THEN Z(x.s, AddN(x.m, y.m))
              ELSE IF CmpN(x.m, y.m) >= 0 THEN Z(x.s, SubN(x.m, y.m)) ELSE Z(y.s, SubN(y.m, x.m))
ZSub(x, y) == ZAdd(x, ZNeg(y))
ZMul(x, y) == Z(x.s * y.s, MulN(x.m, y.m))
\* floor division and modulo with the sign of the divisor (Python's // and %); y # 0
ZDivMod(x, y) ==
  LET qr == DivModN(x.m, y.m) q == qr[1] r == qr[2] IN
  IF x.s = y.s THEN <<Z(1, q), Z(y.s, r)>>
  ELSE IF r = <<>> THEN <<Z(-1, q), ZZero>>
  ELSE <<Z(-1, AddN(q, One)), Z(y.s, SubN(y.m, r))>>
\* shifts by a small TLC count n >= 0; the right shift is the floor of x / 2^n
ZShl(x, n) == Z(x.s, ShlN(x.m, n))
ZShr(x, n) == IF x.s = 1 THEN Z(1, ShrN(x.m, n)) ELSE Z(-1, AddN(ShrN(SubN(x.m, One), n), One))
\* two's complement view of negatives: ~x = -x - 1, so for x < 0 the natural CompN(x) = |x| - 1 is ~x
ZInv(x) == ZSub(ZNeg(x), ZOne)
CompN(x) == SubN(x.m, One)
FromCompN(n) == Z(-1, AddN(n, One))
ZAnd(x, y) == CASE x.s = 1 /\ y.s = 1 -> Z(1, AndN(x.m, y.m))
                [] x.s = -1 /\ y.s = 1 -> Z(1, SubN(y.m, AndN(y.m, CompN(x))))
                [] x.s = 1 /\ y.s = -1 -> Z(1, SubN(x.m, AndN(x.m, CompN(y))))
                [] OTHER -> FromCompN(OrN(CompN(x), CompN(y)))
ZOr(x, y) == CASE x.s = 1 /\ y.s = 1 -> Z(1, OrN(x.m, y.m))
               [] x.s = -1 /\ y.s = 1 -> FromCompN(SubN(CompN(x), AndN(CompN(x), y.m)))
               [] x.s = 1 /\ y.s = -1 -> FromCompN(SubN(CompN(y), AndN(CompN(y), x.m)))
               [] OTHER -> FromCompN(AndN(CompN(x), CompN(y)))
ZXor(x, y) == CASE x.s = 1 /\ y.s = 1 -> Z(1, XorN(x.m, y.m))
                [] x.s = -1 /\ y.s = 1 -> FromCompN(XorN(CompN(x), y.m))
                [] x.s = 1 /\ y.s = -1 -> FromCompN(XorN(CompN(y), x.m))
                [] OTHER -> Z(1, XorN(CompN(x), CompN(y)))
\* x ^ e for a small TLC exponent e >= 0
ZPow(x, e) == Z(IF x.s = -1 /\ e % 2 = 1 THEN -1 ELSE 1, PowN(x.m, e))
\* well-formedness of a transported value
IsNat(a) == /\ \A i \in 1..Len(a) : a[i] \in 0..(B - 1)
            /\ (a = <<>> \/ a[Len(a)] # 0)
IsZ(x) == x.s \in {1, -1} /\ IsNat(x.m) /\ (x.m = <<>> => x.s = 1)
=============================================================================
