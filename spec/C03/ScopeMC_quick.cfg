SPECIFICATION Spec
CONSTANT Names = {"x"}
CONSTANT Shapes <- Shapes3
CONSTANT Flags3 <- FlagSetsQ
INVARIANT Ok
CHECK_DEADLOCK FALSE
