SPECIFICATION Spec
CONSTANTS
  MaxN = 5
  MaxBases = 3
  OpCounts = {1, 2, 3}
  Exhaustive = FALSE
INVARIANTS FrameOk MrosOk
CHECK_DEADLOCK FALSE
