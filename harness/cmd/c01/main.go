//go:build verif

// C01: expressions evaluate once, left to right, with Python's grouping.
//
// G-binding. TLC (spec/C01/PyExprGen.tla over PyExpr.tla / PyExprSyntax.tla) enumerates the case
// space and prints, per case, the rendered source (only the parentheses the precedence table
// requires), the expected abstract syntax tree, the values of the leaves and the SET of allowed
// outcomes (evaluation log + value or exception class; for statements the final names and heap).
// This harness knows nothing about Python: it pastes the leaf values into a table V of a fixed
// prelude, compiles and runs the source in the real interpreter (parser, compiler, vm, py), encodes
// what happened in the same notation and tests membership; and it compares ast.Dump of the real
// parser's tree with the expected tree text (leaf calls abbreviated to @k).
package main

import (
	"encoding/json"
	"fmt"
	"math/big"
	"os"
	"regexp"
	"sort"
	"strconv"
	"strings"
	"sync"
	"time"

	"gpverif/common"
	"gpverif/pyrun"

	"github.com/go-python/gpython/ast"
	"github.com/go-python/gpython/parser"
	"github.com/go-python/gpython/py"
)

const prelude = `
LOG = []
V = []
def e(k):
    LOG.append(k)
    return V[k]
def f(*a, **k):
    LOG.append(100)
    return [list(a), [[x, k[x]] for x in sorted(k)]]
def g(x):
    LOG.append(101)
    return lambda y: [x, y]
class Obj:
    pass
def mk(v):
    o = Obj()
    o.a = v
    return o
`

// J is a value in the notation of PyExprSyntax!J: ["i",n] ["b",n] ["f",n,d] ["N"] ["s",str] ["l",[..]] ["t",[..]]
// ["S",[..]] ["D",[[k,v]..]] ["r",id] ["F"] ["O",attr].
type J []json.RawMessage

type Out struct {
	Log  []int             `json:"log"`
	Exc  string            `json:"exc"`
	Val  J                 `json:"val"`
	Env  []json.RawMessage `json:"env"`
	Heap []json.RawMessage `json:"heap"`
}

type Case struct {
	Fam  string            `json:"fam"`
	Skip bool              `json:"skip"`
	D    []json.RawMessage `json:"d"`
	Stmt bool              `json:"stmt"`
	Src  string            `json:"src"`
	Dump string            `json:"dump"`
	VT   []json.RawMessage `json:"vt"`
	Init []json.RawMessage `json:"init"`
	Outs []Out             `json:"outs"`
	Sigs []string          `json:"sigs"`
	Cls  string            `json:"cls"`
}

func jtag(j J) string {
	var s string
	json.Unmarshal(j[0], &s)
	return s
}
func jint(r json.RawMessage) int64 {
	var n int64
	json.Unmarshal(r, &n)
	return n
}
func jlist(r json.RawMessage) []J {
	var l []J
	json.Unmarshal(r, &l)
	return l
}

// canon renders a value of the specification canonically (sets and dicts order-normalised).
func canon(j J) string {
	switch jtag(j) {
	case "i":
		return "i" + strconv.FormatInt(jint(j[1]), 10)
	case "b":
		return "b" + strconv.FormatInt(jint(j[1]), 10)
	case "f":
		return fmt.Sprintf("f%d/%d", jint(j[1]), jint(j[2]))
	case "N":
		return "N"
	case "s":
		var s string
		json.Unmarshal(j[1], &s)
		return "s" + strconv.Quote(s)
	case "l", "t", "S":
		var parts []string
		for _, x := range jlist(j[1]) {
			parts = append(parts, canon(x))
		}
		switch jtag(j) {
		case "l":
			return "[" + strings.Join(parts, ",") + "]"
		case "t":
			return "(" + strings.Join(parts, ",") + ")"
		}
		sort.Strings(parts)
		return "S{" + strings.Join(parts, ",") + "}"
	case "D":
		var pairs [][]J
		json.Unmarshal(j[1], &pairs)
		var parts []string
		for _, p := range pairs {
			parts = append(parts, canon(p[0])+":"+canon(p[1]))
		}
		sort.Strings(parts)
		return "D{" + strings.Join(parts, ",") + "}"
	case "r":
		return "r" + strconv.FormatInt(jint(j[1]), 10)
	case "F":
		return "F"
	case "O":
		var a J
		json.Unmarshal(j[1], &a)
		return "O<" + canon(a) + ">"
	}
	return "?" + jtag(j)
}

// literal renders a leaf value as Python source for the table V (ints, bools, None, strings, lists, mk(attr)).
func literal(j J) string {
	switch jtag(j) {
	case "i":
		return strconv.FormatInt(jint(j[1]), 10)
	case "b":
		if jint(j[1]) != 0 {
			return "True"
		}
		return "False"
	case "N":
		return "None"
	case "f":
		t := strconv.FormatFloat(float64(jint(j[1]))/float64(jint(j[2])), 'f', -1, 64)
		if !strings.Contains(t, ".") {
			t += ".0"
		}
		return t
	case "s":
		var s string
		json.Unmarshal(j[1], &s)
		return "'" + s + "'"
	case "l":
		var parts []string
		for _, x := range jlist(j[1]) {
			parts = append(parts, literal(x))
		}
		return "[" + strings.Join(parts, ", ") + "]"
	case "S":
		var parts []string
		for _, x := range jlist(j[1]) {
			parts = append(parts, literal(x))
		}
		if len(parts) == 0 {
			return "set()"
		}
		return "{" + strings.Join(parts, ", ") + "}"
	case "O":
		var a J
		json.Unmarshal(j[1], &a)
		return "mk(" + literal(a) + ")"
	}
	return "None"
}

// observe renders a real object in the same notation. ids maps the mutable objects of the table V to their leaf id.
func observe(o py.Object, ids map[py.Object]int) string {
	if o == nil {
		return "?nil"
	}
	switch x := o.(type) {
	case py.NoneType:
		return "N"
	case py.Bool:
		if x {
			return "b1"
		}
		return "b0"
	case py.Int:
		return "i" + strconv.FormatInt(int64(x), 10)
	case *py.BigInt:
		return "i" + (*big.Int)(x).String()
	case py.Float:
		r := new(big.Rat).SetFloat64(float64(x))
		if r == nil {
			return "f" + strconv.FormatFloat(float64(x), 'g', -1, 64)
		}
		return "f" + r.Num().String() + "/" + r.Denom().String()
	case py.String:
		return "s" + strconv.Quote(string(x))
	case *py.List:
		if k, ok := ids[o]; ok {
			return "r" + strconv.Itoa(k)
		}
		parts := make([]string, len(x.Items))
		for i, it := range x.Items {
			parts[i] = observe(it, ids)
		}
		return "[" + strings.Join(parts, ",") + "]"
	case py.Tuple:
		parts := make([]string, len(x))
		for i, it := range x {
			parts[i] = observe(it, ids)
		}
		return "(" + strings.Join(parts, ",") + ")"
	case *py.Set:
		if k, ok := ids[o]; ok {
			return "r" + strconv.Itoa(k)
		}
		var parts []string
		py.Iterate(x, func(it py.Object) bool { parts = append(parts, observe(it, ids)); return false })
		sort.Strings(parts)
		return "S{" + strings.Join(parts, ",") + "}"
	case py.StringDict:
		var parts []string
		for k, v := range x {
			parts = append(parts, "s"+strconv.Quote(k)+":"+observe(v, ids))
		}
		sort.Strings(parts)
		return "D{" + strings.Join(parts, ",") + "}"
	case *py.Function, *py.Method, *py.BoundMethod:
		return "F"
	case *py.Type:
		if k, ok := ids[o]; ok {
			return "r" + strconv.Itoa(k)
		}
		if a, err := py.GetAttrString(o, "a"); err == nil {
			return "O<" + observe(a, ids) + ">"
		}
	}
	return "?" + o.Type().Name
}

var leafRe = regexp.MustCompile(`Call\(func=Name\(id='e', ctx=Load\(\)\), args=\[Num\(n=(\d+)\)\], keywords=\[\], starargs=None, kwargs=None\)`)

type worker struct {
	ctx *pyrun.Ctx
}

func newWorker() *worker {
	w := &worker{ctx: pyrun.New()}
	if r := w.ctx.Exec(prelude, 10*time.Second); r.Outcome() != "ok" {
		common.Inconclusive("property=C01 prelude does not run: %s %s %s", r.Outcome(), r.Msg, r.Panic)
	}
	return w
}

// observation of one case
type observation struct {
	Log   []int    `json:"log"`
	Exc   string   `json:"exc"` // "" | class | panic:<site> | timeout
	Bases []string `json:"-"`
	Val   string   `json:"val,omitempty"`
	Env   string   `json:"env,omitempty"`
	Heap  string   `json:"heap,omitempty"`
	Dump  string   `json:"dump,omitempty"`
}

var stmtNames = []string{"a", "b", "c", "i", "j", "k", "m", "n", "p", "q", "x", "y", "z"}

func (w *worker) run(c *Case) (*observation, error) {
	g := w.ctx.Mod.Globals
	for _, n := range stmtNames {
		delete(g, n)
	}
	// table V
	maxID := 0
	type ent struct {
		id int
		j  J
	}
	var ents []ent
	for _, raw := range c.VT {
		var pr []json.RawMessage
		json.Unmarshal(raw, &pr)
		var j J
		json.Unmarshal(pr[1], &j)
		id := int(jint(pr[0]))
		ents = append(ents, ent{id, j})
		if id > maxID {
			maxID = id
		}
	}
	tab := make([]string, maxID+1)
	for i := range tab {
		tab[i] = "None"
	}
	for _, e := range ents {
		tab[e.id] = literal(e.j)
	}
	setup := "V = [" + strings.Join(tab, ", ") + "]\n"
	for _, raw := range c.Init {
		var pr []json.RawMessage
		json.Unmarshal(raw, &pr)
		var nm string
		json.Unmarshal(pr[0], &nm)
		setup += fmt.Sprintf("%s = V[%d]\n", nm, jint(pr[1]))
	}
	if r := w.ctx.Exec(setup, 10*time.Second); r.Outcome() != "ok" {
		return nil, fmt.Errorf("scaffold %q: %s %s", setup, r.Outcome(), r.Msg)
	}
	vl, ok := g["V"].(*py.List)
	if !ok || len(vl.Items) != maxID+1 {
		return nil, fmt.Errorf("scaffold: V is not the table")
	}
	ids := map[py.Object]int{}
	for _, e := range ents {
		if t := jtag(e.j); t == "l" || t == "O" || t == "S" {
			ids[vl.Items[e.id]] = e.id
		}
	}
	logList := py.NewList()
	g["LOG"] = logList
	var r *pyrun.Result
	if c.Stmt {
		r = w.ctx.Exec(c.Src+"\n", 10*time.Second)
	} else {
		r = w.ctx.Eval(c.Src, 10*time.Second)
	}
	o := &observation{Log: []int{}}
	switch {
	case r.TimedOut:
		o.Exc = "timeout"
	case r.Panic != "":
		o.Exc = "panic:" + r.PanicSite
	case r.Exc != "":
		o.Exc = r.Exc
		o.Bases = r.ExcBases
		if r.CompileErr {
			o.Exc = "compile:" + r.Exc
		}
	}
	for _, it := range logList.Items {
		if n, ok := it.(py.Int); ok {
			o.Log = append(o.Log, int(n))
		} else {
			o.Log = append(o.Log, -1)
		}
	}
	if c.Stmt {
		var env []string
		for _, n := range stmtNames {
			if v, ok := g[n]; ok {
				env = append(env, n+"="+observe(v, ids))
			}
		}
		o.Env = strings.Join(env, ";")
		var heap []string
		for _, e := range ents {
			switch jtag(e.j) {
			case "l":
				l, _ := vl.Items[e.id].(*py.List)
				if l == nil {
					heap = append(heap, fmt.Sprintf("%d=?", e.id))
					continue
				}
				parts := make([]string, len(l.Items))
				for i, it := range l.Items {
					parts[i] = observe(it, ids)
				}
				heap = append(heap, fmt.Sprintf("%d=[%s]", e.id, strings.Join(parts, ",")))
			case "S":
				st, _ := vl.Items[e.id].(*py.Set)
				if st == nil {
					heap = append(heap, fmt.Sprintf("%d=?", e.id))
					continue
				}
				var parts []string
				py.Iterate(st, func(it py.Object) bool { parts = append(parts, observe(it, ids)); return false })
				sort.Strings(parts)
				heap = append(heap, fmt.Sprintf("%d=S{%s}", e.id, strings.Join(parts, ",")))
			case "O":
				a, err := py.GetAttrString(vl.Items[e.id], "a")
				if err != nil {
					heap = append(heap, fmt.Sprintf("%d=O<?>", e.id))
				} else {
					heap = append(heap, fmt.Sprintf("%d=O<%s>", e.id, observe(a, ids)))
				}
			}
		}
		sort.Strings(heap)
		o.Heap = strings.Join(heap, ";")
	} else if o.Exc == "" {
		o.Val = observe(r.Value, ids)
	}
	// the real parser's tree
	func() {
		defer func() {
			if e := recover(); e != nil {
				o.Dump = fmt.Sprint("panic: ", e)
			}
		}()
		mode, src := py.EvalMode, c.Src
		if c.Stmt {
			mode, src = py.ExecMode, c.Src+"\n"
		}
		a, err := parser.ParseString(src, mode)
		if err != nil {
			o.Dump = "error: " + common.TrimKey(err.Error(), 80)
			return
		}
		o.Dump = leafRe.ReplaceAllString(ast.Dump(a), "@$1")
	}()
	return o, nil
}

// expectation in the same notation
type expected struct {
	Log  []int
	Exc  string
	Val  string
	Env  string
	Heap string
}

func expectations(c *Case) []expected {
	var es []expected
	for _, o := range c.Outs {
		e := expected{Log: o.Log, Exc: o.Exc}
		if e.Log == nil {
			e.Log = []int{}
		}
		if c.Stmt {
			var env []string
			for _, raw := range o.Env {
				var pr []json.RawMessage
				json.Unmarshal(raw, &pr)
				var nm string
				json.Unmarshal(pr[0], &nm)
				if nm == "f" || nm == "g" {
					continue
				}
				var j J
				json.Unmarshal(pr[1], &j)
				env = append(env, nm+"="+canon(j))
			}
			sort.Strings(env)
			e.Env = strings.Join(env, ";")
			var heap []string
			for _, raw := range o.Heap {
				var pr []json.RawMessage
				json.Unmarshal(raw, &pr)
				var j J
				json.Unmarshal(pr[1], &j)
				s := canon(j)
				heap = append(heap, fmt.Sprintf("%d=%s", jint(pr[0]), s))
			}
			sort.Strings(heap)
			e.Heap = strings.Join(heap, ";")
		} else if o.Exc == "" {
			e.Val = canon(o.Val)
		}
		es = append(es, e)
	}
	return es
}

func sameLog(a, b []int) bool {
	if len(a) != len(b) {
		return false
	}
	for i := range a {
		if a[i] != b[i] {
			return false
		}
	}
	return true
}

// excMatches: exception classes are compared up to inheritance (the observed class may be a subclass).
func excMatches(o *observation, want string) bool {
	if want == "" || o.Exc == "" {
		return want == o.Exc
	}
	if o.Exc == want {
		return true
	}
	for _, b := range o.Bases {
		if b == want {
			return true
		}
	}
	return false
}

// compare returns "" if the observation is one of the allowed outcomes (and the tree is the expected
// one), else the kind of divergence: ast | log | exc | value | state.
func compare(c *Case, o *observation, es []expected) string {
	if o.Dump != c.Dump {
		return "ast"
	}
	logOK, excOK := false, false
	for _, e := range es {
		if !sameLog(e.Log, o.Log) {
			continue
		}
		logOK = true
		if !excMatches(o, e.Exc) {
			continue
		}
		excOK = true
		if c.Stmt {
			if e.Env == o.Env && e.Heap == o.Heap {
				return ""
			}
		} else if e.Exc != "" || e.Val == o.Val {
			return ""
		}
	}
	switch {
	case !logOK:
		return "log"
	case !excOK:
		return "exc"
	case c.Stmt:
		return "state"
	}
	return "value"
}

func kindOf(exc string) string {
	if exc == "" {
		return "value"
	}
	return exc
}

// descriptor without its operand-value components: the case partition of a non-primitive family
func shapeOf(c *Case) string {
	var parts []string
	n := len(c.D)
	switch c.Fam {
	case "pair", "triple", "unmix", "d2", "form", "stmt":
		n-- // last component selects operand values
	case "truth":
		parts = append(parts, string(c.D[1]), "ctx="+string(c.D[5]))
		return strings.Join(parts, ",")
	case "sim":
		return "random"
	}
	for _, r := range c.D[1:n] {
		parts = append(parts, string(r))
	}
	if c.Fam == "stmt" { // refine by the store operations the specification performed
		for _, s := range c.Sigs {
			if strings.HasPrefix(s, "set") {
				parts = append(parts, s)
			}
		}
	}
	return strings.Join(parts, ",")
}

func main() {
	env := common.Setup()
	rep := common.NewReport(env, "model_checking")
	rep.Rule = "a case is one expression or assignment tree with its leaf values, generated by TLC from spec/C01/PyExprGen.tla (all operator pairs/triples in every grouping, unary/binary mixes, truth-value triples x boolean/comparison/conditional forms, all trees of depth <= 2 over a reduced alphabet, call/subscript/slice/attribute/display/lambda forms, assignment shapes, every operator on every pair of universe values; thorough adds random trees of depth 3); distinct = distinct (source text, leaf values); every case has at least one logging operand, cases whose result leaves the modelled number domain are dropped before counting"
	rep.Assumptions = []string{
		"TLC and the CommunityModules Json module are correct",
		"the specification PyExpr.tla states Python 3.4's rules (it was compared with CPython 3.11 during development; 3.4/3.11 differences are listed in design.d/C01.md)",
		"the prelude (e, f, g, Obj, mk) and the table V use only constructs of the vetted scaffolding core",
	}

	if env.Replay != "" {
		replay(env, rep)
		return
	}

	fams := `{"prim", "pair", "triple", "unmix", "truth", "d2", "form", "stmt"}`
	cfg := fmt.Sprintf("CONSTANTS\n  Tier = \"%s\"\n  Seed = %d\n  Fams = %s\nINIT Init\nNEXT Next\nINVARIANT MetaOK\nCHECK_DEADLOCK FALSE\n", env.Tier, env.Seed, fams)
	var mu sync.Mutex
	var cases []*Case
	skipped := map[string]int{}
	collect := func(rec []byte) {
		c := &Case{}
		if err := json.Unmarshal(rec, c); err != nil {
			common.Inconclusive("property=C01 bad record from TLC: %v", err)
		}
		mu.Lock()
		if c.Skip {
			skipped[c.Fam]++
		} else {
			cases = append(cases, c)
		}
		mu.Unlock()
	}
	res := env.MustTLC(common.TLCRun{Dir: "C01", Module: "PyExprGen", Config: "gen.cfg", Extra: map[string]string{"gen.cfg": cfg},
		Timeout: 12 * time.Minute, OnLine: collect})
	if len(res.Violations) > 0 || !res.Finished {
		common.Inconclusive("property=C01 the specification's own invariant (each leaf at most once / order / exactly once unless short-circuited) fails or TLC did not finish: %v\n%s", res.Violations, res.Stdout)
	}
	rep.AddTLC(res)
	simCases := 0
	if env.Thorough() {
		simCfg := fmt.Sprintf("CONSTANTS\n  Tier = \"thorough\"\n  Seed = %d\n  Fams = {}\n  Depth = 3\nINIT SimInit\nNEXT SimNext\nINVARIANT MetaOK\nCHECK_DEADLOCK FALSE\n", env.Seed)
		n0 := len(cases)
		r2 := env.MustTLC(common.TLCRun{Dir: "C01", Module: "PyExprSim", Config: "sim.cfg", Extra: map[string]string{"sim.cfg": simCfg},
			Simulate: "num=8000", Depth: 5, Seed: env.Seed, Workers: 1, Timeout: 8 * time.Minute, OnLine: collect})
		if len(r2.Violations) > 0 {
			common.Inconclusive("property=C01 meta-invariant fails on a random tree: %v\n%s", r2.Violations, r2.Stdout)
		}
		rep.AddTLC(r2)
		simCases = len(cases) - n0
	}
	if len(cases) == 0 {
		common.Inconclusive("property=C01 TLC produced no case")
	}
	// primitives first: a composite case that diverges and contains a primitive operation which already
	// diverged on its own is attributed to that primitive's key.
	sort.SliceStable(cases, func(i, j int) bool { return cases[i].Fam == "prim" && cases[j].Fam != "prim" })
	nprim := 0
	for nprim < len(cases) && cases[nprim].Fam == "prim" {
		nprim++
	}

	tainted := map[string]string{} // signature -> key
	var tmu sync.Mutex
	distinct := map[string]bool{}
	famCount := map[string]int{}
	var nondet, shortCut, excCases, attributed, flaky int
	sigSeen := map[string]bool{}
	groupObs := map[string]bool{}

	process := func(batch []*Case, prim bool) {
		ch := make(chan *Case, 256)
		var wg sync.WaitGroup
		nw := env.Workers
		if nw > 8 {
			nw = 8
		}
		for i := 0; i < nw; i++ {
			wg.Add(1)
			go func() {
				defer wg.Done()
				w := newWorker()
				defer w.ctx.Close()
				for c := range ch {
					es := expectations(c)
					o, err := w.run(c)
					if err != nil {
						common.Inconclusive("property=C01 %v", err)
					}
					kind := compare(c, o, es)
					if kind != "" {
						// once more in a fresh interpreter before it counts
						w2 := newWorker()
						o2, err2 := w2.run(c)
						w2.ctx.Close()
						if err2 == nil && compare(c, o2, es) == "" {
							tmu.Lock()
							flaky++
							tmu.Unlock()
							kind = ""
						} else if err2 == nil {
							o = o2
							kind = compare(c, o2, es)
						}
					}
					nleaf := len(c.VT) - len(c.Init)
					tmu.Lock()
					famCount[c.Fam]++
					distinct[c.Src+"|"+string(bytesJoin(c.VT))] = true
					if len(c.Outs) > 1 {
						nondet++
					}
					anyExc := false
					for _, x := range c.Outs {
						if x.Exc != "" {
							anyExc = true
						} else if len(x.Log) < nleaf {
							shortCut++
							break
						}
					}
					if anyExc {
						excCases++
					}
					for _, s := range c.Sigs {
						sigSeen[s] = true
					}
					tmu.Unlock()
					if kind == "" {
						continue
					}
					expKinds := map[string]bool{}
					for _, e := range es {
						expKinds[kindOf(e.Exc)] = true
					}
					var ek []string
					for k := range expKinds {
						ek = append(ek, k)
					}
					sort.Strings(ek)
					detail := map[string]interface{}{"case": c, "observed": o}
					obsKind := kind
					if kind == "exc" || kind == "log" {
						obsKind = kind + ":" + kindOf(o.Exc)
					}
					if obsKind == "exc:value" || obsKind == "log:value" {
						obsKind += ",expected=" + strings.Join(ek, "/")
					}
					if prim && c.Cls != "" {
						key := "C01|" + c.Cls + "|observed=" + obsKind
						tmu.Lock()
						if _, ok := tainted[c.Cls]; !ok {
							tainted[c.Cls] = key
						}
						tmu.Unlock()
						rep.Violation(key, detail)
						continue
					}
					// composite: attribute to a diverging primitive it contains, if any (but never an ast divergence)
					if kind != "ast" {
						tmu.Lock()
						var hit []string
						for _, s := range c.Sigs {
							if k, ok := tainted[s]; ok {
								hit = append(hit, k)
							}
						}
						if len(hit) > 0 {
							attributed++
						}
						tmu.Unlock()
						if len(hit) > 0 {
							sort.Strings(hit)
							rep.Violation(hit[0], detail)
							continue
						}
					}
					rep.Violation("C01|"+c.Fam+"|"+shapeOf(c)+"|observed="+obsKind, detail)
				}
			}()
		}
		for _, c := range batch {
			ch <- c
		}
		close(ch)
		wg.Wait()
	}
	process(cases[:nprim], true)
	process(cases[nprim:], false)

	// which operator pairs had a case whose two groupings are told apart by the allowed outcomes
	pairOuts := map[string]map[string]string{}
	for _, c := range cases {
		if c.Fam != "pair" {
			continue
		}
		id := string(c.D[1]) + "," + string(c.D[2]) + "|" + string(c.D[4])
		if pairOuts[id] == nil {
			pairOuts[id] = map[string]string{}
		}
		var outs []string
		for _, e := range expectations(c) {
			outs = append(outs, fmt.Sprint(e.Log, e.Exc, e.Val))
		}
		sort.Strings(outs)
		pairOuts[id][string(c.D[3])] = strings.Join(outs, " ")
	}
	for id, m := range pairOuts {
		if len(m) == 2 && m["1"] != m["2"] {
			groupObs[strings.SplitN(id, "|", 2)[0]] = true
		}
	}

	for i, c := range cases {
		if i%(len(cases)/5+1) == 0 {
			rep.Sample(map[string]interface{}{"family": c.Fam, "source": c.Src, "leaf_values": c.VT, "allowed_outcomes": c.Outs})
		}
	}
	rep.Evaluations = int64(len(cases))
	rep.Distinct = int64(len(distinct))
	rep.Traces = int64(len(cases))
	rep.Exhaustive = false
	rep.Extra["cases_per_family"] = famCount
	rep.Extra["dropped_outside_model_per_family"] = skipped
	rep.Extra["random_depth3_cases"] = simCases
	rep.Extra["cases_with_several_allowed_outcomes"] = nondet
	rep.Extra["cases_with_short_circuit_or_unselected_branch"] = shortCut
	rep.Extra["cases_with_exception_outcome"] = excCases
	rep.Extra["primitive_signatures_exercised"] = len(sigSeen)
	rep.Extra["operator_pairs_with_observable_grouping"] = len(groupObs)
	rep.Extra["composite_divergences_attributed_to_a_diverging_primitive"] = attributed
	rep.Extra["divergences_not_reproduced_in_fresh_context"] = flaky
	rep.Extra["exhaustive_note"] = "the enumerated families are exhaustive within their stated bounds; operand-value vectors of pair/triple/form/stmt families and (quick) the depth-2 trees are seeded samples"
	if nprim == 0 || famCount["pair"] == 0 || famCount["stmt"] == 0 || shortCut == 0 || nondet == 0 {
		common.Vacuous("property=C01 vacuous run: prim=%d pair=%d stmt=%d shortcut=%d nondet=%d", nprim, famCount["pair"], famCount["stmt"], shortCut, nondet)
	}
	rep.Finish()
}

func bytesJoin(rs []json.RawMessage) []byte {
	var b []byte
	for _, r := range rs {
		b = append(b, r...)
	}
	return b
}

// replay re-runs the case stored in a replay file and prints expectation and observation.
func replay(env *common.Env, rep *common.Report) {
	b, err := os.ReadFile(env.Replay)
	if err != nil {
		common.Inconclusive("property=C01 replay: %v", err)
	}
	var f struct {
		Key  string `json:"key"`
		Case struct {
			Case *Case `json:"case"`
		} `json:"case"`
	}
	if err := json.Unmarshal(b, &f); err != nil || f.Case.Case == nil {
		common.Inconclusive("property=C01 replay file does not hold a case: %v", err)
	}
	c := f.Case.Case
	w := newWorker()
	o, err := w.run(c)
	if err != nil {
		common.Inconclusive("property=C01 %v", err)
	}
	es := expectations(c)
	kind := compare(c, o, es)
	fmt.Printf("source:   %s\nallowed:  %+v\nobserved: %+v\nexpected tree: %s\n", c.Src, es, *o, c.Dump)
	rep.Evaluations, rep.Distinct, rep.Traces = 1, 1, 1
	if kind != "" {
		rep.Violation(f.Key, map[string]interface{}{"case": c, "observed": o})
	}
	rep.Finish()
}
