SPECIFICATION Spec
CONSTANT Names = {"x"}
CONSTANT Shapes <- Shapes3
INVARIANT Ok
CHECK_DEADLOCK FALSE
