------------------------------- MODULE GoCall -------------------------------
(* C04, embedding boundary: what a callable implemented in Go receives.                         *)
(*                                                                                              *)
(* gpython supports four Go signatures for native callables (py/method.go):                     *)
(*   "args"    func(self Object, args Tuple) (Object, error)                                    *)
(*   "kwargs"  func(self Object, args Tuple, kwargs StringDict) (Object, error)                 *)
(*   "noargs"  func(self Object) (Object, error)                                                *)
(*   "onearg"  func(self, arg Object) (Object, error)                                           *)
(* and a callable is reached as a module function (receiver = the module), as a method through  *)
(* an instance (receiver = the instance) or as a method through the class (receiver = the first *)
(* positional argument of the call, as for any method descriptor: list.append(l, x)).           *)
(* The call shapes are PyCall's.  Keywords are never matched against names here: all of them    *)
(* go to kwargs, and a callable without a kwargs parameter rejects any keyword with TypeError.  *)
EXTENDS PyCall
GoKinds == <<"args", "kwargs", "noargs", "onearg">>
Vias == <<"module", "instance", "class">>
GoFail == [ok |-> FALSE, recv |-> "", args |-> <<>>, kw |-> <<>>]
\* delivery after the receiver is known
Deliver(kind, recv, pos, c) ==
  LET kw == KwGiven(c)
      err == \/ c.kws \cap c.ss # {}                       \* f(a=1, **{'a': 2}) is an error at the call site
             \/ kind # "kwargs" /\ kw # {}                 \* takes no keyword arguments
             \/ kind = "noargs" /\ pos # <<>>              \* takes no arguments
             \/ kind = "onearg" /\ Len(pos) # 1            \* takes exactly one argument
  IN IF err THEN GoFail
     ELSE [ok |-> TRUE, recv |-> recv, args |-> pos, kw |-> SetToSeq({ <<n, KwVal(c, n)>> : n \in kw })]
GoExpect(kind, via, c) ==
  LET pos == Positionals(c) IN
  CASE via = "module"   -> Deliver(kind, "module", pos, c)
    [] via = "instance" -> Deliver(kind, "inst", pos, c)
    [] via = "class"    -> IF pos = <<>> THEN GoFail       \* descriptor needs an argument
                           ELSE Deliver(kind, Head(pos), Tail(pos), c)
\* NOT an allowed behaviour: what a callable reached through the class would get if the
\* receiver were not taken from the arguments.  Printed only so that the harness can name the
\* kind of a divergence ("receiver not extracted") without knowing any semantics itself.
NoReceiver(kind, c) == Deliver(kind, "none", Positionals(c), c)

GUnits == ndJsonDeserialize("gounits.ndjson")      \* [id, kind (1..4), via (1..3), cis]
VARIABLES u, v
ASSUME PrintT(ToJson([calls |-> [i \in 1..Len(CallSeq) |->
          [n |-> CallSeq[i].n, kws |-> SetToSeq(CallSeq[i].kws), star |-> CallSeq[i].star,
           hasss |-> CallSeq[i].hasss, ss |-> SetToSeq(CallSeq[i].ss)]]]))
GRecord(unit) ==
  LET kind == GoKinds[unit.kind] via == Vias[unit.via] IN
  [id |-> unit.id, kind |-> kind, via |-> via,
   cases |-> [j \in 1..Len(unit.cis) |->
                [ci |-> unit.cis[j], e |-> GoExpect(kind, via, CallSeq[unit.cis[j]]),
                 norecv |-> IF via = "class" THEN NoReceiver(kind, CallSeq[unit.cis[j]]) ELSE GoFail]]]
GInit == u \in 1..Len(GUnits) /\ v = "todo"
GNext == v = "todo" /\ UNCHANGED u /\ PrintT(ToJson(GRecord(GUnits[u]))) /\ v' = "done"
GSpec == GInit /\ [][GNext]_<<u, v>>
\* conservation at the boundary: on success receiver + args + kwargs are exactly what was supplied
GoConserved(kind, via, c) ==
  LET e == GoExpect(kind, via, c) IN
  e.ok => { e.args[i] : i \in 1..Len(e.args) } \cup { e.kw[i][2] : i \in 1..Len(e.kw) } \cup (IF via = "class" THEN {e.recv} ELSE {}) = Supplied(c)
GInv == v = "done" => \A j \in 1..Len(GUnits[u].cis) : GoConserved(GoKinds[GUnits[u].kind], Vias[GUnits[u].via], CallSeq[GUnits[u].cis[j]])
=============================================================================
