//go:build verif

package main

import (
	"crypto/sha1"
	"encoding/json"
	"fmt"
	"strconv"
	"sync"

	"github.com/go-python/gpython/py"
)

// CodeRec is one code object as data for the specification (spec/C12/PyVM.tla).
// Everything in it is copied from the *py.Code the real compiler produced; St is the witness of
// the instruction boundaries which the specification verifies (it decides what a boundary is).
type CodeRec struct {
	Id          int   `json:"id"`
	Bytes       []int `json:"bytes"`
	St          []int `json:"st"`
	NConsts     int   `json:"nconsts"`
	KKind       []int `json:"kkind"`
	NNames      int   `json:"nnames"`
	NVars       int   `json:"nvars"`
	NCells      int   `json:"ncells"`
	Stacksize   int   `json:"stacksize"`
	Lnotab      []int `json:"lnotab"`
	Firstlineno int   `json:"firstlineno"`
	NLines      int   `json:"nlines"`
	Emit        int   `json:"emit"`

	code   *py.Code
	src    *Source // program it was compiled from (nil: discovered at run time)
	parent int     // id of the enclosing code object (0 = top level)
	instrs int
}

// Source is one program of the corpus.
type Source struct {
	Name   string // file name given to the compiler
	Origin string // "repo" | "gen" | "probe"
	Text   string
	Run    bool   // execute it for the dynamic part
	Dir    string // sys.path entry when run
	Class  string // generator family (for the evidence)
}

type Blk struct {
	T string `json:"t"`
	H int    `json:"h"`
	L int    `json:"l"`
}
type Ev struct {
	Pc   int      `json:"pc"`
	Tags []string `json:"tags"`
	Blk  []Blk    `json:"blk"`
}
type Trace struct {
	Cid  int    `json:"cid"`
	Ev   []Ev   `json:"ev"`
	Exit string `json:"exit"`

	gcid int // id in the global table
	cut  bool
}

type obsKey struct {
	cid int32
	pc  int32
	d   int32
	b   int32
}

// Recorder is the observer behind vm.VerifInstr.
type Recorder struct {
	mu       sync.Mutex
	table    *Table
	maxEv    int   // events kept per frame
	perCode  int   // traces kept per code object
	maxTotal int64 // events handed to TLC in all
	budget   int64 // instructions allowed for the current program (watchdog)
	used     int64

	live     map[*py.Frame]*Trace
	ignored  map[*py.Frame]bool
	finished map[*py.Frame]bool
	seen     map[[20]byte]bool
	nPerCode map[int]int
	traces   []*Trace
	obs      map[obsKey]struct{} // every (code, pc, stack depth, block depth) the VM was seen in
	covered  map[obsKey]struct{} // those that occur in a trace handed to TLC
	needEmit map[int]bool        // code objects with observations outside the validated traces
	curSrc   *Source

	frames, events, tracedEvents int64
	cutFrames, resumedAfterExit  int64
	maxDepthSeen                 int
	budgetHit                    int
}

type budgetExceeded struct{}

func newRecorder(t *Table, maxEv, perCode int, maxTotal int64) *Recorder {
	return &Recorder{table: t, maxEv: maxEv, perCode: perCode, maxTotal: maxTotal, live: map[*py.Frame]*Trace{}, ignored: map[*py.Frame]bool{},
		finished: map[*py.Frame]bool{}, seen: map[[20]byte]bool{}, nPerCode: map[int]int{}, obs: map[obsKey]struct{}{}, covered: map[obsKey]struct{}{}, needEmit: map[int]bool{}}
}

// tag abstracts a value of the real stack to what the specification can be compared with.
func tag(o py.Object) string {
	switch x := o.(type) {
	case nil:
		return "nil"
	case py.NoneType:
		return "N"
	case py.Int:
		return "I" + strconv.FormatInt(int64(x), 10)
	case *py.Type:
		if py.ExceptionClassCheck(x) {
			return "ET"
		}
		return "V"
	case *py.Traceback:
		return "TB"
	}
	return "V"
}

var btype = map[py.TryBlockType]string{py.TryBlockSetupLoop: "L", py.TryBlockSetupExcept: "E", py.TryBlockSetupFinally: "F", py.TryBlockExceptHandler: "H"}

// hook is installed as vm.VerifInstr: called before every instruction fetch and at frame exit.
func (r *Recorder) hook(f *py.Frame, exit bool, why int) {
	r.mu.Lock()
	defer r.mu.Unlock()
	if r.ignored[f] {
		if exit && why != 5 {
			delete(r.ignored, f)
		}
		return
	}
	t := r.live[f]
	if t == nil {
		if exit {
			return
		}
		if f.Lasti != 0 {
			// a frame that was already left (not by a yield) is being executed again
			r.resumedAfterExit++
			r.ignored[f] = true
			return
		}
		id := r.table.idOf(f.Code, r.curSrc)
		t = &Trace{gcid: id}
		r.live[f] = t
		r.frames++
	}
	if exit {
		switch why {
		case 5: // yield: the frame will be resumed, keep the trace open
			return
		case 2:
			t.Exit = "returned"
		case 1:
			t.Exit = "raised"
		default:
			t.Exit = "why" + strconv.Itoa(why)
		}
		r.finish(f, t)
		return
	}
	r.events++
	r.used++
	d, b := len(f.Stack), len(f.Blockstack)
	if d > r.maxDepthSeen {
		r.maxDepthSeen = d
	}
	r.obs[obsKey{int32(t.gcid), f.Lasti, int32(d), int32(b)}] = struct{}{}
	if len(t.Ev) < r.maxEv {
		e := Ev{Pc: int(f.Lasti), Tags: make([]string, d), Blk: make([]Blk, b)}
		for i, o := range f.Stack {
			e.Tags[i] = tag(o)
		}
		for i, bl := range f.Blockstack {
			e.Blk[i] = Blk{btype[bl.Type], int(bl.Handler), bl.Level}
		}
		t.Ev = append(t.Ev, e)
	} else if !t.cut {
		t.cut = true
		r.cutFrames++
	}
	if r.budget > 0 && r.used > r.budget {
		r.budgetHit++
		r.used = 0
		panic(budgetExceeded{})
	}
}

func (r *Recorder) finish(f *py.Frame, t *Trace) {
	delete(r.live, f)
	if t.cut {
		t.Exit = "cut"
	}
	h := sha1.New()
	fmt.Fprintf(h, "%d|%s|", t.gcid, t.Exit)
	enc := json.NewEncoder(h)
	enc.Encode(t.Ev)
	var k [20]byte
	copy(k[:], h.Sum(nil))
	if r.seen[k] {
		return
	}
	r.seen[k] = true
	if r.nPerCode[t.gcid] >= r.perCode || r.tracedEvents+int64(len(t.Ev)) > r.maxTotal {
		return // its observations are covered by the reachable-set comparison (see uncovered)
	}
	r.nPerCode[t.gcid]++
	r.tracedEvents += int64(len(t.Ev))
	r.traces = append(r.traces, t)
	for _, e := range t.Ev {
		r.covered[obsKey{int32(t.gcid), int32(e.Pc), int32(len(e.Tags)), int32(len(e.Blk))}] = struct{}{}
	}
}

// endProgram closes the traces of frames that never finished (suspended generators, frames
// abandoned by a Go panic or by the instruction budget).
func (r *Recorder) endProgram() {
	r.mu.Lock()
	defer r.mu.Unlock()
	for f, t := range r.live {
		if t.Exit == "" {
			t.Exit = "open"
		}
		r.finish(f, t)
	}
	r.live = map[*py.Frame]*Trace{}
	r.ignored = map[*py.Frame]bool{}
}

// uncovered returns the observations no validated trace contains (frames cut at maxEv, traces beyond
// perCode); they are compared with the reachable set TLC exports for their code objects.
func (r *Recorder) uncovered() []obsKey {
	var out []obsKey
	for k := range r.obs {
		if _, ok := r.covered[k]; !ok {
			out = append(out, k)
			r.needEmit[int(k.cid)] = true
		}
	}
	return out
}
