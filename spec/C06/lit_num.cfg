SPECIFICATION Spec
CONSTANTS Kind = "num"
          FullLen = 0
          RepLen = 0
          RepPrefixes = {}
          RepQuotes = {}
INVARIANT Emit
CHECK_DEADLOCK FALSE
