SPECIFICATION Spec
CONSTANTS MaxLen = 3
          MaxFill = 2
          CoreFill = 3
          SimLens = {}
          SimFill = {}
INVARIANT Emit
CHECK_DEADLOCK FALSE
