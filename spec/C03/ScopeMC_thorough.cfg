SPECIFICATION Spec
CONSTANT Names = {"x"}
CONSTANT Shapes <- ShapesAll
CONSTANT Flags3 <- FlagSets
INVARIANT Ok
CHECK_DEADLOCK FALSE
