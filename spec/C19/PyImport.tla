------------------------------ MODULE PyImport ------------------------------
(* C19 - the import machinery of ONE context.                                                *)
(*                                                                                            *)
(* store  : the context's module table (sys.modules): names of the registered modules         *)
(* stack  : the loading stack, one frame per body being executed (bottom = main program)      *)
(* ns     : per module its namespace (the names v, _h, pub, w), nsall its __all__             *)
(* cnt    : per module object the number of import statements that bound THE OBJECT so far:   *)
(*          every such statement increments a counter attribute on the object it received and *)
(*          logs the new value, so two importers holding different objects, or an object      *)
(*          created twice, show up as a wrong count ("same object, later mutations visible")  *)
(*                                                                                            *)
(* Body of a module (Body(m) below):                                                          *)
(*    log run ; [raise] ; pre-imports ; v,_h,pub[,__all__] = ... ; post-imports ; [raise] ; log end *)
(* Every import statement is guarded: ImportError is caught at the statement and logged.      *)
(* A ValueError raised by a body is not caught in modules (it unwinds every body on the       *)
(* loading stack) and is caught and logged by the main program.                               *)
(*                                                                                            *)
(* What C19 leaves open and the model therefore allows both ways (variable policy): whether a *)
(* module whose body raised stays registered ("keep": later imports return the half-          *)
(* initialised object silently, the body never runs again) or is removed from the table       *)
(* ("remove", what Python 3.4 does: the next import runs the body again).                     *)
EXTENDS PyImportCfg, Json

VARIABLES avail, prog, policy, starerr, fstar, modattr, store, stack, exc, ns, nsall, cnt, log, cls, obs, runs, fails, made, binds, steps
vars == <<avail, prog, policy, starerr, fstar, modattr, store, stack, exc, ns, nsall, cnt, log, cls, obs, runs, fails, made, binds, steps>>

Op(o) == [form |-> o, t |-> "-"]
ValuesOf(m) == [v |-> m \o ".v", _h |-> m \o "._h", pub |-> m \o ".pub"]
SetOp(m, a) == [form |-> "set", t |-> "-", vals |-> ValuesOf(m), allv |-> a, hasall |-> a # "no", all |-> AllList(a), astuple |-> a = "emptyt"]
BodyOf(c, m) ==
  IF m = Main THEN c.main
  ELSE LET mc == c.mods[m] IN
    IF mc.kind = "goglob" THEN << SetOp(m, mc.all) >>
    ELSE <<Op("run")>> \o (IF mc.raises = "early" THEN <<Op("raise")>> ELSE <<>>) \o mc.pre
         \o << SetOp(m, mc.all) >> \o mc.post
         \o (IF mc.raises = "late" THEN <<Op("raise")>> ELSE <<>>) \o <<Op("end")>>
Policies(c) == IF \E m \in Mods : c.mods[m].raises # "no" THEN {"remove", "keep"} ELSE {"remove"}
(* `from t import *` where __all__ lists a name t does not have: Python 3.4 raises AttributeError (after   *)
(* binding the names listed before it); C19 only says a missing name "raises ImportError", so either class  *)
(* is a behaviour of the model (one per behaviour, like policy).                                            *)
StarErrs(c) == IF \E m \in Mods : c.mods[m].all = "vz" THEN {"AttributeError", "ImportError"} ELSE {"AttributeError"}
(* prog is the configuration in executable form, computed once per behaviour: the bodies, the module kinds *)
(* and the number of behaviours the model allows for this configuration (see policy)                      *)
ProgOf(f, c) == [fam |-> f, bodies |-> [m \in All |-> BodyOf(c, m)], kinds |-> [m \in Mods |-> c.mods[m].kind], alts |-> Cardinality(Policies(c)) * Cardinality(StarErrs(c))]
Body(m) == prog.bodies[m]

Frame(m) == [m |-> m, pc |-> 1, wait |-> FALSE, tc |-> "-"]

InitWith(f, S) ==
  /\ \E c \in S : prog = ProgOf(f, c) /\ policy \in Policies(c) /\ starerr \in StarErrs(c)
  /\ avail = { m \in Mods : prog.kinds[m] # "late" }
  /\ store = {} /\ stack = << Frame(Main) >> /\ exc = "none" /\ fstar = {} /\ modattr = [m \in All |-> {}]
  /\ ns = [m \in All |-> EmptyNs] /\ nsall = [m \in All |-> "no"] /\ cnt = [m \in Mods |-> 0]
  /\ log = <<>> /\ cls = <<>> /\ obs = <<>>
  /\ runs = [m \in Mods |-> 0] /\ fails = [m \in Mods |-> 0] /\ made = [m \in Mods |-> 0] /\ binds = [m \in Mods |-> <<>>]
  /\ steps = 0

Top     == stack[Len(stack)]
Rest    == SubSeq(stack, 1, Len(stack) - 1)
SetTop(f) == [stack EXCEPT ![Len(stack)] = f]
Active  == stack # <<>> /\ Top.pc <= Len(Body(Top.m))
Cur     == Body(Top.m)[Top.pc]
Idx     == ToString(Top.pc)
OnStack(m) == \E i \in 1..Len(stack) : stack[i].m = m
Tick    == steps' = steps + 1

(* The top frame has finished its current statement with the log entries es (classes cs, used *)
(* only to name a divergence).  A finished statement of the main program closes an observation*)
(* (log since the previous one, module table).  store' must be determined before this is used.*)
Advance(es, cs) ==
  /\ stack' = SetTop([Top EXCEPT !.pc = @ + 1, !.wait = FALSE, !.tc = "-"])
  /\ IF Top.m = Main
     THEN /\ obs' = Append(obs, [log |-> log \o es, cls |-> cls \o cs, store |-> store'])
          /\ log' = <<>> /\ cls' = <<>>
     ELSE /\ log' = log \o es /\ cls' = cls \o cs /\ UNCHANGED obs
(* fstar: the modules in whose namespace a star-import failed at the listed-but-missing name zz, and the     *)
(* modules that imported "zz" or everything public from such a module.  None of them has a name zz; the set   *)
(* only classifies statements for naming divergences (an implementation that leaves zz behind after the      *)
(* failed star-import spreads it exactly along this set).                                                    *)
ClsOf(s, tc) == <<"stmt", s.form, IF s.t \in fstar THEN tc \o "+failed-star" ELSE tc>>
ImportErrorEntry == << <<Top.m, Idx, "ImportError">> >>

AtImport == Active /\ exc = "none" /\ Cur.form \in ImportForms

(* import of a module that exists nowhere - or not YET anywhere the context looks: a "late" module's file lies *)
(* in a directory that is not on sys.path until the main program appends it (AddPath).  ImportError, nothing  *)
(* registered, nothing remembered: the same statement succeeds once the module can be found.                  *)
MissingModule ==
  /\ AtImport /\ ~Top.wait /\ (Cur.t = Missing \/ (Cur.t \in Mods \ avail /\ Cur.t \notin store))
  /\ store' = store
  /\ Advance(ImportErrorEntry, << ClsOf(Cur, IF Cur.t = Missing THEN "missing" ELSE "unavailable") >>)
  /\ Tick /\ UNCHANGED <<avail, prog, policy, starerr, modattr, fstar, exc, ns, nsall, cnt, runs, fails, made, binds>>

(* first import in this context: the module is registered BEFORE its body runs *)
RegisterBeforeRun ==
  /\ AtImport /\ ~Top.wait /\ Cur.t \in avail /\ Cur.t \notin store
  /\ LET t == Cur.t IN
     /\ store' = store \cup {t}
     /\ ns' = [ns EXCEPT ![t] = EmptyNs] /\ nsall' = [nsall EXCEPT ![t] = "no"] /\ cnt' = [cnt EXCEPT ![t] = 0]
     /\ made' = [made EXCEPT ![t] = @ + 1] /\ binds' = [binds EXCEPT ![t] = <<>>]
     /\ stack' = Append(SetTop([Top EXCEPT !.wait = TRUE, !.tc = "first"]), Frame(t))
     /\ fstar' = fstar \ {t} /\ modattr' = [modattr EXCEPT ![t] = {}]
  /\ Tick /\ UNCHANGED <<avail, prog, policy, starerr, exc, log, cls, obs, runs, fails>>

(* from t import *  binds exactly __all__ if t has one, else the names not starting with an underscore *)
(* (an empty __all__ binds nothing; a listed name the module lacks makes the statement fail after the names before it) *)
StarNames(t) == IF nsall[t] = "no" THEN { n \in Names \ Private : ns[t][n] # Unbound }
                ELSE { AllList(nsall[t])[i] : i \in 1..Len(AllList(nsall[t])) } \cap Names
StarFails(t) == \E i \in 1..Len(AllList(nsall[t])) : AllList(nsall[t])[i] \notin Names

(* The module table has the module - complete, or partial because it is still loading further down the    *)
(* stack, or just loaded by this very statement: bind what the statement form says and observe it.       *)
TargetClass == IF Top.wait THEN Top.tc ELSE IF OnStack(Cur.t) THEN "loading" ELSE "loaded"
Spreads == (Cur.form = "star" /\ StarFails(Cur.t)) \/ (Cur.form = "star" /\ nsall[Cur.t] = "no" /\ Cur.t \in fstar)
           \/ (Cur.form = "from_missing" /\ Cur.t \in fstar)
BindNames ==
  /\ AtImport /\ Cur.t \in store
  /\ store' = store
  /\ LET s == Cur  t == s.t  I == Top.m  T == ns[t]  c == << ClsOf(s, TargetClass) >> IN
     CASE s.form \in ModuleForms ->
            /\ cnt' = [cnt EXCEPT ![t] = @ + 1] /\ binds' = [binds EXCEPT ![t] = Append(@, cnt[t] + 1)]
            \* "same": the object bound is the very object registered under t in the module table
            /\ Advance(<< <<I, Idx, "mod", t, ToString(cnt[t] + 1), IF T.v = Unbound THEN "AttributeError" ELSE T.v, "same">> >>, c)
            /\ UNCHANGED ns
       [] s.form \in NameForms ->
            IF T.v = Unbound
            THEN Advance(ImportErrorEntry, c) /\ UNCHANGED <<ns, cnt, binds>>
            ELSE /\ ns' = [ns EXCEPT ![I][IF s.form = "from" THEN "v" ELSE "w"] = T.v]
                 /\ Advance(<< <<I, Idx, "from", T.v>> >>, c) /\ UNCHANGED <<cnt, binds>>
       [] s.form = "from_missing" -> Advance(ImportErrorEntry, c) /\ UNCHANGED <<ns, cnt, binds>>
       [] s.form \in ModNameForms ->       \* only t's own attribute counts, not what the module table holds under the name u
            /\ Advance(IF s.u \in modattr[t] THEN << <<I, Idx, "frommod", s.u>> >> ELSE ImportErrorEntry, c)
            /\ UNCHANGED <<ns, cnt, binds>>
       [] s.form = "star" ->
            LET new == [n \in Names |-> IF n \in StarNames(t) THEN T[n] ELSE ns[I][n]] IN
            /\ ns' = [ns EXCEPT ![I] = new]
            /\ Advance(IF StarFails(t) THEN << <<I, Idx, starerr>> >> ELSE << <<I, Idx, "star", new.v, new._h, new.pub, new.w>> >>, c)
            /\ UNCHANGED <<cnt, binds>>
  /\ fstar' = IF Spreads THEN fstar \cup {Top.m} ELSE fstar
  \* modattr[m]: the module names bound as attributes of m (import u, from t import u, a star-import that copied them)
  /\ modattr' = [modattr EXCEPT ![Top.m] =
        CASE Cur.form = "import" -> @ \cup {Cur.t}
          [] Cur.form = "frommod" /\ Cur.u \in modattr[Cur.t] -> @ \cup {Cur.u}
          [] Cur.form = "star" /\ nsall[Cur.t] = "no" -> @ \cup modattr[Cur.t]
          [] OTHER -> @]
  /\ Tick /\ UNCHANGED <<avail, prog, policy, starerr, exc, nsall, runs, fails, made>>

(* sys.path.append(<the directory of the late modules>): from now on they can be found *)
AddPath ==
  /\ Active /\ exc = "none" /\ Cur.form = "addpath"
  /\ avail' = Mods /\ store' = store
  /\ Advance(<< <<Top.m, Idx, "addpath">> >>, << <<"stmt", "addpath", "-">> >>)
  /\ Tick /\ UNCHANGED <<prog, policy, starerr, modattr, fstar, exc, ns, nsall, cnt, runs, fails, made, binds>>

(* the other steps of a module body *)
RunBodyStep ==
  /\ Active /\ exc = "none" /\ Cur.form \in {"run", "end", "set", "raise"}
  /\ LET m == Top.m  nxt == SetTop([Top EXCEPT !.pc = @ + 1]) IN
     CASE Cur.form = "run" -> /\ log' = Append(log, <<"run", m>>) /\ cls' = Append(cls, <<"body", "run", prog.kinds[m]>>)
                              /\ runs' = [runs EXCEPT ![m] = @ + 1] /\ stack' = nxt /\ UNCHANGED <<exc, ns, nsall>>
       [] Cur.form = "end" -> /\ log' = Append(log, <<"end", m>>) /\ cls' = Append(cls, <<"body", "end", prog.kinds[m]>>)
                              /\ stack' = nxt /\ UNCHANGED <<exc, ns, nsall, runs>>
       [] Cur.form = "set" -> /\ ns' = [ns EXCEPT ![m] = [n \in Names |-> IF n \in DOMAIN Cur.vals THEN Cur.vals[n] ELSE @[n]]]
                              /\ nsall' = [nsall EXCEPT ![m] = Cur.allv]
                              /\ stack' = nxt /\ UNCHANGED <<exc, log, cls, runs>>
       [] Cur.form = "raise" -> exc' = "ValueError" /\ UNCHANGED <<stack, ns, nsall, log, cls, runs>>
  /\ Tick /\ UNCHANGED <<avail, prog, policy, starerr, modattr, fstar, store, cnt, obs, fails, made, binds>>

(* a body ran to its end: the import that started it can bind *)
FinishImport ==
  /\ stack # <<>> /\ exc = "none" /\ Top.pc > Len(Body(Top.m))
  /\ stack' = Rest
  /\ Tick /\ UNCHANGED <<avail, prog, policy, starerr, modattr, fstar, store, exc, ns, nsall, cnt, log, cls, obs, runs, fails, made, binds>>

(* an exception leaves a module body: the import fails, the importer's statement raises it *)
FailBody ==
  /\ stack # <<>> /\ exc # "none" /\ Top.m # Main
  /\ stack' = Rest
  /\ store' = IF policy = "remove" THEN store \ {Top.m} ELSE store
  /\ fails' = [fails EXCEPT ![Top.m] = @ + 1]
  /\ Tick /\ UNCHANGED <<avail, prog, policy, starerr, modattr, fstar, exc, ns, nsall, cnt, log, cls, obs, runs, made, binds>>

(* ... and the main program catches it; the context stays usable *)
CatchInMain ==
  /\ stack # <<>> /\ exc # "none" /\ Top.m = Main
  /\ store' = store /\ exc' = "none"
  /\ Advance(<< <<Main, Idx, exc>> >>, << <<"raised", Cur.form, Top.tc>> >>)
  /\ Tick /\ UNCHANGED <<avail, prog, policy, starerr, modattr, fstar, ns, nsall, cnt, runs, fails, made, binds>>

Next == MissingModule \/ AddPath \/ RegisterBeforeRun \/ BindNames \/ RunBodyStep \/ FinishImport \/ FailBody \/ CatchInMain
Final == stack = <<>>

(* ---------------------------------- what C19 demands of the model ---------------------------------- *)
(* nothing is registered that could never be found *)
OnlyAvailable == store \subseteq avail
(* a body runs once per successful import: a second run only ever follows a failed one *)
RunOnce == \A m \in Mods : runs[m] <= 1 + fails[m] /\ (policy = "keep" => runs[m] <= 1)
(* a module is never loading twice (cycles find the registered partial module instead of recursing) *)
NoReentry == \A i, j \in 1..Len(stack) : i # j => stack[i].m # stack[j].m
(* one object per module name while it is registered; every importer that binds the module gets that object: *)
(* the k-th binding statement of an object sees the count k                                                     *)
OneObject == \A m \in Mods : /\ made[m] <= 1 + fails[m]
                             /\ (m \in store => made[m] >= 1)
                             /\ binds[m] = [i \in 1..Len(binds[m]) |-> i]
(* a namespace only ever holds values some module defined: star/from never invent or cross names *)
Provenance == \A m \in All : \A n \in Names : ns[m][n] # Unbound =>
                 \E o \in Mods : ns[m][n] = ValuesOf(o)[IF n = "w" THEN "v" ELSE n]
(* an underscore name reaches another namespace only through an __all__ that lists it *)
StarRespectsUnderscore == \A m \in All : ns[m]._h # Unbound /\ (m = Main \/ ns[m]._h # ValuesOf(m)._h) =>
                 \E o \in Mods : \E i \in 1..Len(Body(o)) : Body(o)[i].form = "set" /\ Body(o)[i].allv = "vh"
(* every statement of the main program completes, whatever failed before it: the context stays usable, cycles terminate *)
(* (a body is at most 9 steps long with at most 4 imports of 2 steps each; after a failure everything unwinds to the main program) *)
Terminates == steps <= Len(Body(Main)) * (3 + Cardinality(Mods) * 14) + 1
Usable == Final => Len(obs) = Len(Body(Main))
TypeOK == starerr \in {"AttributeError", "ImportError"} /\ store \subseteq Mods /\ exc \in {"none", "ValueError"} /\ policy \in {"remove", "keep"}

(* ------------------------------------------- export --------------------------------------------- *)
Emit == Final => PrintT(ToJson([fam |-> prog.fam, kinds |-> prog.kinds, bodies |-> prog.bodies, policy |-> policy, starerr |-> starerr, alts |-> prog.alts, obs |-> obs]))
=============================================================================
