SPECIFICATION Spec
CONSTANTS
  MaxN = 4
  MaxBases = 3
  EmitAll = TRUE
INVARIANT DesignOk
CHECK_DEADLOCK FALSE
