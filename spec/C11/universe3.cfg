SPECIFICATION Spec
CONSTANTS MaxLen = 3
          MaxFill = 2
          CoreFill = 2
          SimLens = {}
          SimFill = {}
INVARIANT Emit
CHECK_DEADLOCK FALSE
