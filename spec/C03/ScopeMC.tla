---- MODULE ScopeMC ----
\* Exhaustive check  SymtableAlg (functional driver)  =  PyScopeD (declarative rules)  for one name:
\* every tree shape of <= 4 nested blocks x {module, function, class} x every def-use flag set.
\* (With one name there is no iteration order to vary; RefineMC does the order quantification.)
EXTENDS PyScopeD
FlagSets == { {}, {"L"}, {"U"}, {"L","U"}, {"G"}, {"G","L"}, {"G","U"}, {"G","L","U"}, {"N"}, {"N","L"}, {"N","U"}, {"N","L","U"},
              {"P"}, {"P","U"}, {"P","L"}, {"P","G"}, {"P","N"}, {"G","N"} }
Flags4 == { {}, {"L"}, {"U"}, {"L","U"}, {"G","L"}, {"G","U"}, {"N","U"}, {"N","L"}, {"P"} }
ShapesAll == { <<0>>, <<0,1>>, <<0,1,2>>, <<0,1,1>>, <<0,1,2,3>>, <<0,1,2,2>>, <<0,1,1,3>>, <<0,1,2,1>>, <<0,1,1,1>> }
Shapes3 == { <<0>>, <<0,1>>, <<0,1,2>>, <<0,1,1>> }
FlagSetsQ == { {}, {"L"}, {"U"}, {"L","U"}, {"G","L"}, {"G","U"}, {"N","L"}, {"N","U"}, {"P"}, {"P","U"}, {"P","G"}, {"G","N"} }
CONSTANTS Shapes, Flags3
VARIABLES shape, types, fl, v
N1 == CHOOSE n \in Names : TRUE
Mk == WithModuleGlobals([i \in 1..Len(shape) |-> [type |-> types[i], parent |-> shape[i], flags |-> [n \in Names |-> fl[i]]]])
TypesOK == types[1] = "module" /\ \A i \in 2..Len(shape) : types[i] # "module"
ParamsOK == \A i \in 1..Len(shape) : ("P" \in fl[i]) => types[i] = "function"
Init == /\ shape \in Shapes
        /\ types \in [1..Len(shape) -> {"module", "function", "class"}] /\ TypesOK
        /\ fl \in [1..Len(shape) -> (IF Len(shape) = 4 THEN Flags4 ELSE Flags3)] /\ ParamsOK
        /\ v = "todo"
Check == LET B == Mk r == Analyze(B, UniformOrd(B, <<N1>>)) IN
         IF (r.err # "") # ErrorD(B, N1) THEN "error presence"
         ELSE IF r.err # "" THEN "ok"
         ELSE IF \A b \in 1..Len(B) : r.res[b][N1] = ClassifyD(B, b, N1) THEN "ok" ELSE "scopes"
Next == v = "todo" /\ v' = Check /\ UNCHANGED <<shape, types, fl>>
Spec == Init /\ [][Next]_<<shape, types, fl, v>>
Ok == v \in {"todo", "ok"}
====
