//go:build verif

package main

import (
	"crypto/sha1"
	"encoding/json"
	"fmt"
	"strings"
)

func hashKey(s string) string {
	h := sha1.Sum([]byte(s))
	return string(h[:10])
}

// One fixed template per node type: the field names of ast.Dump (struct field order of ast/ast.go)
// and, for each, the key of the tree record printed by TLC and how its value is written.
//
//	node   a child node ({"t":"None"} -> None)      nodes   a list of child nodes
//	id     an identifier ('x'; "" -> None)          ids     a list of identifiers
//	op     an operator class (Add -> Add())         ops     a list of operator classes
//	int    an integer                               const   True / False / None as written
//	chars  a list of one-character strings: 'abc'   bytes   the same, written b'abc'
//	dotted a list of name parts: 'a.b' ([] -> None)
type field struct{ dump, key, kind string }

var templates = map[string][]field{
	"Module":        {{"body", "body", "nodes"}},
	"Expression":    {{"body", "body", "node"}},
	"Expr":          {{"value", "value", "node"}},
	"Assign":        {{"targets", "targets", "nodes"}, {"value", "value", "node"}},
	"AugAssign":     {{"target", "target", "node"}, {"op", "op", "op"}, {"value", "value", "node"}},
	"Return":        {{"value", "value", "node"}},
	"Pass":          {},
	"Break":         {},
	"Continue":      {},
	"Raise":         {{"exc", "exc", "node"}, {"cause", "cause", "node"}},
	"Global":        {{"names", "names", "ids"}},
	"Nonlocal":      {{"names", "names", "ids"}},
	"Import":        {{"names", "names", "nodes"}},
	"ImportFrom":    {{"module", "module", "dotted"}, {"names", "names", "nodes"}, {"level", "level", "int"}},
	"alias":         {{"name", "name", "dotted"}, {"asname", "asname", "id"}},
	"Delete":        {{"targets", "targets", "nodes"}},
	"Assert":        {{"test", "test", "node"}, {"msg", "msg", "node"}},
	"If":            {{"test", "test", "node"}, {"body", "body", "nodes"}, {"orelse", "orelse", "nodes"}},
	"While":         {{"test", "test", "node"}, {"body", "body", "nodes"}, {"orelse", "orelse", "nodes"}},
	"For":           {{"target", "target", "node"}, {"iter", "iter", "node"}, {"body", "body", "nodes"}, {"orelse", "orelse", "nodes"}},
	"Try":           {{"body", "body", "nodes"}, {"handlers", "handlers", "nodes"}, {"orelse", "orelse", "nodes"}, {"finalbody", "finalbody", "nodes"}},
	"ExceptHandler": {{"type", "type", "node"}, {"name", "name", "id"}, {"body", "body", "nodes"}},
	"With":          {{"items", "items", "nodes"}, {"body", "body", "nodes"}},
	"withitem":      {{"context_expr", "context_expr", "node"}, {"optional_vars", "optional_vars", "node"}},
	"FunctionDef":   {{"name", "name", "id"}, {"args", "args", "node"}, {"body", "body", "nodes"}, {"decorator_list", "decorator_list", "nodes"}, {"returns", "returns", "node"}},
	"ClassDef": {{"name", "name", "id"}, {"bases", "bases", "nodes"}, {"keywords", "keywords", "nodes"}, {"starargs", "starargs", "node"}, {"kwargs", "kwargs", "node"},
		{"body", "body", "nodes"}, {"decorator_list", "decorator_list", "nodes"}},
	"arguments": {{"args", "args", "nodes"}, {"vararg", "vararg", "node"}, {"kwonlyargs", "kwonlyargs", "nodes"}, {"kw_defaults", "kw_defaults", "nodes"},
		{"kwarg", "kwarg", "node"}, {"defaults", "defaults", "nodes"}},
	"arg":           {{"arg", "arg", "id"}, {"annotation", "annotation", "node"}},
	"keyword":       {{"arg", "arg", "id"}, {"value", "value", "node"}},
	"BoolOp":        {{"op", "op", "op"}, {"values", "values", "nodes"}},
	"BinOp":         {{"left", "left", "node"}, {"op", "op", "op"}, {"right", "right", "node"}},
	"UnaryOp":       {{"op", "op", "op"}, {"operand", "operand", "node"}},
	"Lambda":        {{"args", "args", "node"}, {"body", "body", "node"}},
	"IfExp":         {{"test", "test", "node"}, {"body", "body", "node"}, {"orelse", "orelse", "node"}},
	"Dict":          {{"keys", "keys", "nodes"}, {"values", "values", "nodes"}},
	"Set":           {{"elts", "elts", "nodes"}},
	"ListComp":      {{"elt", "elt", "node"}, {"generators", "generators", "nodes"}},
	"SetComp":       {{"elt", "elt", "node"}, {"generators", "generators", "nodes"}},
	"DictComp":      {{"key", "key", "node"}, {"value", "value", "node"}, {"generators", "generators", "nodes"}},
	"GeneratorExp":  {{"elt", "elt", "node"}, {"generators", "generators", "nodes"}},
	"comprehension": {{"target", "target", "node"}, {"iter", "iter", "node"}, {"ifs", "ifs", "nodes"}},
	"Yield":         {{"value", "value", "node"}},
	"YieldFrom":     {{"value", "value", "node"}},
	"Compare":       {{"left", "left", "node"}, {"ops", "ops", "ops"}, {"comparators", "comparators", "nodes"}},
	"Call":          {{"func", "func", "node"}, {"args", "args", "nodes"}, {"keywords", "keywords", "nodes"}, {"starargs", "starargs", "node"}, {"kwargs", "kwargs", "node"}},
	"Num":           {{"n", "n", "int"}},
	"Str":           {{"s", "s", "chars"}},
	"Bytes":         {{"s", "s", "bytes"}},
	"NameConstant":  {{"value", "value", "const"}},
	"Ellipsis":      {},
	"Attribute":     {{"value", "value", "node"}, {"attr", "attr", "id"}, {"ctx", "ctx", "op"}},
	"Subscript":     {{"value", "value", "node"}, {"slice", "slice", "node"}, {"ctx", "ctx", "op"}},
	"Starred":       {{"value", "value", "node"}, {"ctx", "ctx", "op"}},
	"Name":          {{"id", "id", "id"}, {"ctx", "ctx", "op"}},
	"List":          {{"elts", "elts", "nodes"}, {"ctx", "ctx", "op"}},
	"Tuple":         {{"elts", "elts", "nodes"}, {"ctx", "ctx", "op"}},
	"Slice":         {{"lower", "lower", "node"}, {"upper", "upper", "node"}, {"step", "step", "node"}},
	"ExtSlice":      {{"dims", "dims", "nodes"}},
	"Index":         {{"value", "value", "node"}},
}

// dumpTree writes the tree record in the format of ast.Dump and counts node types.
func dumpTree(raw json.RawMessage) (string, map[string]int64, error) {
	var v interface{}
	if err := json.Unmarshal(raw, &v); err != nil {
		return "", nil, err
	}
	types := map[string]int64{}
	var sb strings.Builder
	if err := dumpNode(&sb, v, types); err != nil {
		return "", nil, err
	}
	return sb.String(), types, nil
}

func strList(v interface{}) ([]string, error) {
	l, ok := v.([]interface{})
	if !ok {
		return nil, fmt.Errorf("not a list: %v", v)
	}
	out := make([]string, len(l))
	for i, x := range l {
		s, ok := x.(string)
		if !ok {
			return nil, fmt.Errorf("not a string: %v", x)
		}
		out[i] = s
	}
	return out, nil
}

func dumpNode(sb *strings.Builder, v interface{}, types map[string]int64) error {
	m, ok := v.(map[string]interface{})
	if !ok {
		return fmt.Errorf("node is not a record: %v", v)
	}
	t, _ := m["t"].(string)
	if t == "None" {
		sb.WriteString("None")
		return nil
	}
	tpl, ok := templates[t]
	if !ok {
		return fmt.Errorf("no template for node type %q", t)
	}
	types[t]++
	sb.WriteString(t)
	sb.WriteByte('(')
	for i, f := range tpl {
		if i > 0 {
			sb.WriteString(", ")
		}
		sb.WriteString(f.dump)
		sb.WriteByte('=')
		x, present := m[f.key]
		if !present {
			return fmt.Errorf("%s record has no field %s", t, f.key)
		}
		switch f.kind {
		case "node":
			if err := dumpNode(sb, x, types); err != nil {
				return err
			}
		case "nodes":
			l, ok := x.([]interface{})
			if !ok {
				return fmt.Errorf("%s.%s is not a list", t, f.key)
			}
			sb.WriteByte('[')
			for j, e := range l {
				if j > 0 {
					sb.WriteString(", ")
				}
				if err := dumpNode(sb, e, types); err != nil {
					return err
				}
			}
			sb.WriteByte(']')
		case "id":
			s, _ := x.(string)
			if s == "" {
				sb.WriteString("None")
			} else {
				sb.WriteString("'" + s + "'")
			}
		case "ids":
			l, err := strList(x)
			if err != nil {
				return err
			}
			for j := range l {
				l[j] = "'" + l[j] + "'"
			}
			sb.WriteString("[" + strings.Join(l, ", ") + "]")
		case "op":
			s, _ := x.(string)
			sb.WriteString(s + "()")
		case "ops":
			l, err := strList(x)
			if err != nil {
				return err
			}
			for j := range l {
				l[j] += "()"
			}
			sb.WriteString("[" + strings.Join(l, ", ") + "]")
		case "int":
			n, ok := x.(float64)
			if !ok {
				return fmt.Errorf("%s.%s is not a number", t, f.key)
			}
			sb.WriteString(fmt.Sprintf("%d", int64(n)))
		case "const":
			s, _ := x.(string)
			sb.WriteString(s)
		case "chars", "bytes":
			l, err := strList(x)
			if err != nil {
				return err
			}
			if f.kind == "bytes" {
				sb.WriteByte('b')
			}
			sb.WriteString("'" + strings.Join(l, "") + "'")
		case "dotted":
			l, err := strList(x)
			if err != nil {
				return err
			}
			if len(l) == 0 {
				sb.WriteString("None")
			} else {
				sb.WriteString("'" + strings.Join(l, ".") + "'")
			}
		default:
			return fmt.Errorf("unknown field kind %q", f.kind)
		}
	}
	sb.WriteByte(')')
	return nil
}
