------------------------------- MODULE MCFam -------------------------------
(* Exhaustive families of configurations (see PyImportCfg) selected by the constant Family. *)
EXTENDS PyImport
CONSTANT Family
Three == {"import", "from", "star"}
Five  == {"import", "import_as", "from", "from_as", "star"}
Cfgs == CASE Family = "graph3"   -> GraphFamily(Three)
          [] Family = "graph5"   -> GraphFamily(Five)
          [] Family = "uniform"  -> UniformFamily({"import_as", "from", "star"})
          [] Family = "diamond"  -> DiamondFamily(Three)
          [] Family = "flat2"    -> FlatFamily(2)
          [] Family = "flat3"    -> FlatFamily(3)
          [] Family = "raise"    -> RaiseFamily(Three)
ASSUME \A c \in Cfgs : CfgOK(c)
Init == InitWith(Cfgs)
Spec == Init /\ [][Next]_vars
=============================================================================
