------------------------------- MODULE MC -------------------------------
(* Bounded instances of Contexts: every assignment of scripts to the contexts within per-context *)
(* length bounds, up to permutation of contexts that have the same bound. Always three contexts; *)
(* a bound of 0 leaves a context idle.                                                            *)
EXTENDS Contexts
CONSTANTS MaxLens,  \* sequence of length bounds, one per context in the order of CtxSeq
          OnlyRelated \* TRUE: keep only assignments in which every two non-empty scripts touch a common
                      \* state component (operations on different components use different names, so an
                      \* interference between them could not be observed by these scripts anyway)

\* constant-level tables (TLC evaluates them once)
CompName == [i \in 1..Len(OpList) |-> Component(OpList[i].op).name]
Scripts(n) == UNION { [1..k -> 1..Len(OpList)] : k \in 0..n }
S1 == Scripts(MaxLens[1])
S2 == Scripts(MaxLens[2])
S3 == Scripts(MaxLens[3])

Code(s) == FoldLeft(LAMBDA acc, o : acc * (Len(OpList) + 1) + o, 0, s)
\* s before t in the order used to pick one representative of each orbit of the context permutations
Leq(s, t) == Len(s) > Len(t) \/ (Len(s) = Len(t) /\ Code(s) <= Code(t))
Comps(s) == { CompName[s[i]] : i \in 1..Len(s) }
Rel(s, t) == ~OnlyRelated \/ s = <<>> \/ t = <<>> \/ Comps(s) \cap Comps(t) # {}

F3(s1, s2, s3) == ("c1" :> s1) @@ ("c2" :> s2) @@ ("c3" :> s3)
\* the family of the configuration; a context that a family does not use gets the empty script (bound 0)
MCSeeds == S1
MCCases(s1) ==
  { a \in { F3(s1, s2, s3) : s2 \in { t \in S2 : (MaxLens[1] = MaxLens[2] => Leq(s1, t)) /\ Rel(s1, t) }, s3 \in S3 } :
      /\ (MaxLens[2] = MaxLens[3] => Leq(a["c2"], a["c3"]))
      /\ Rel(a["c1"], a["c3"]) /\ Rel(a["c2"], a["c3"]) }

ML210 == <<2, 1, 0>>
ML220 == <<2, 2, 0>>
ML110 == <<1, 1, 0>>
ML111 == <<1, 1, 1>>
AllConfigs == {"explicit", "zero", "default"}
Both == {"percontext", "reject"}
One == {"percontext"}
=============================================================================
