SPECIFICATION Spec
CONSTANTS
  Mods = {"ma", "mb", "mc", "md"}
  Family = "uniform"
INVARIANTS TypeOK RunOnce NoReentry OneObject Provenance StarRespectsUnderscore Terminates Usable Emit
CHECK_DEADLOCK FALSE
