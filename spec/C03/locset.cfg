SPECIFICATION Spec
CONSTANT Names = {"x"}
CONSTANT NameSeq <- Seq1
CONSTANT MaxScopes = 3
CONSTANT MaxDepth = 2
CONSTANT MaxEvStmt = 5
CONSTANT MaxEvExpr = 3
CONSTANT WithLocset = TRUE
CHECK_DEADLOCK FALSE
