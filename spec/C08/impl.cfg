\* implementation-shaped model (Shared = TRUE): TLC prints the operation at which a behaviour first
\* leaves NonInterference (ACTION_CONSTRAINT LeakWitness; always true, it only prints)
SPECIFICATION Spec
CONSTANTS
  Ctx = {"c1", "c2", "c3"}
  Shared = TRUE
  MaxLens <- ML110
  OnlyRelated = TRUE
  Seeds <- MCSeeds
  Cases <- MCCases
  Policies <- One
  Configs <- AllConfigs
  ConfigDepth = 2
ACTION_CONSTRAINT LeakWitness
CHECK_DEADLOCK FALSE
