\* thorough: seeded sample of programs of nesting depth exactly 4 (-simulate)
SPECIFICATION SpecSim
CONSTANTS
  Depth = 4
  MinDepth = 4
  SynDepth = 2
  MaxIn = 4
INVARIANTS TypeOK CleanupOnce HandlerFirstMatch NoneLost EscapeIntact FinalOK RejectedNeverRuns
CHECK_DEADLOCK FALSE
