SPECIFICATION Spec
CONSTANTS MaxLen = 8
          SimLens = {3, 4, 5, 6, 7, 8}
INVARIANT Emit
CHECK_DEADLOCK FALSE
