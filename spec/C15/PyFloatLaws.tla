---------------------------- MODULE PyFloatLaws ----------------------------
(* Design check for C15: TLC checks, for every ordered pair of a lattice of doubles (given as bit patterns),  *)
(* laws that IEEE-754 arithmetic and Python's float_divmod / conversions satisfy, so that a mistake in the     *)
(* executable definitions of PyFloat (rounding, alignment of exponents, sign of zero, fmod, decimal            *)
(* conversion) is contradicted by an independent statement.  One initial state per pair, laws evaluated in    *)
(* the Next step.  The ASSUMEs pin the repr postcondition and float(text) on hand-picked texts.               *)
(* (The module was additionally run against CPython 3.11 as subject during development: bit for bit.)         *)
EXTENDS PyFloatOps
CONSTANT Tier          \* 0 = quick, 1 = thorough
QuickPatterns ==
  {<<0, 0, 0, 0, 0, 0, 0, 0>>,
   <<128, 0, 0, 0, 0, 0, 0, 0>>,
   <<63, 240, 0, 0, 0, 0, 0, 0>>,
   <<191, 240, 0, 0, 0, 0, 0, 0>>,
   <<63, 224, 0, 0, 0, 0, 0, 0>>,
   <<63, 248, 0, 0, 0, 0, 0, 0>>,
   <<64, 4, 0, 0, 0, 0, 0, 0>>,
   <<192, 4, 0, 0, 0, 0, 0, 0>>,
   <<63, 185, 153, 153, 153, 153, 153, 154>>,
   <<0, 0, 0, 0, 0, 0, 0, 1>>,
   <<0, 16, 0, 0, 0, 0, 0, 0>>,
   <<127, 239, 255, 255, 255, 255, 255, 255>>,
   <<127, 240, 0, 0, 0, 0, 0, 0>>,
   <<255, 240, 0, 0, 0, 0, 0, 0>>,
   <<127, 248, 0, 0, 0, 0, 0, 0>>,
   <<67, 64, 0, 0, 0, 0, 0, 0>>,
   <<67, 224, 0, 0, 0, 0, 0, 0>>,
   <<64, 30, 0, 0, 0, 0, 0, 0>>,
   <<192, 30, 0, 0, 0, 0, 0, 0>>,
   <<64, 8, 0, 0, 0, 0, 0, 0>>,
   <<68, 128, 240, 207, 6, 77, 213, 146>>}
MorePatterns ==
  {<<0, 15, 255, 255, 255, 255, 255, 255>>,
   <<128, 0, 0, 0, 0, 0, 0, 1>>,
   <<67, 63, 255, 255, 255, 255, 255, 255>>,
   <<195, 224, 0, 0, 0, 0, 0, 0>>,
   <<1, 165, 110, 31, 194, 248, 243, 89>>,
   <<126, 55, 228, 60, 136, 0, 117, 156>>,
   <<63, 211, 51, 51, 51, 51, 51, 51>>,
   <<63, 211, 51, 51, 51, 51, 51, 52>>,
   <<65, 157, 111, 52, 84, 128, 0, 0>>,
   <<67, 48, 0, 0, 0, 0, 0, 0>>,
   <<191, 185, 153, 153, 153, 153, 153, 154>>,
   <<64, 0, 0, 0, 0, 0, 0, 0>>,
   <<67, 65, 195, 121, 55, 224, 128, 0>>,
   <<67, 208, 0, 0, 0, 0, 0, 0>>,
   <<63, 223, 255, 255, 255, 255, 255, 255>>,
   <<64, 12, 0, 0, 0, 0, 0, 0>>,
   <<192, 12, 0, 0, 0, 0, 0, 0>>,
   <<68, 181, 45, 2, 199, 225, 74, 246>>}
Lattice == {DecodeF(p) : p \in IF Tier = 0 THEN QuickPatterns ELSE QuickPatterns \cup MorePatterns}

SameNum(x, y) == Same(x, y) \/ (IsZeroF(x) /\ IsZeroF(y))          \* equal up to the sign of zero
ArithLaws(x, y) ==
  /\ Same(FAdd(x, y), FAdd(y, x)) /\ Same(FMul(x, y), FMul(y, x))
  /\ SameNum(FNeg(FAdd(x, y)), FAdd(FNeg(x), FNeg(y)))
  /\ Same(FNeg(FMul(x, y)), FMul(FNeg(x), y))
  /\ SameNum(FSub(x, y), FNeg(FSub(y, x)))
  /\ (IsFin(x) /\ IsFin(y)) => ((FCompare(x, y) = "lt") <=> (~IsZeroF(FSub(x, y)) /\ FSub(x, y).s = 1))    \* no underflow to zero
  /\ FCompare(x, y) = (CASE FCompare(y, x) = "lt" -> "gt" [] FCompare(y, x) = "gt" -> "lt" [] OTHER -> FCompare(y, x))
  /\ (IsFin(x) /\ ~IsZeroF(x)) => (Same(FDiv(x, x), FOne) /\ Same(FSub(x, x), FZero(0)) /\ Same(FMul(x, FOne), x) /\ Same(FDiv(x, FOne), x) /\ Same(FAdd(x, FZero(0)), x))
  /\ (IsFin(x) /\ IsFin(y) /\ ~IsZeroF(y)) => Same(FDiv(FMul(x, y), y), FDiv(FMul(y, x), y))
DivModLaws(x, y) ==
  (IsFin(x) /\ IsFin(y) /\ ~IsZeroF(y)) =>
    LET d == FloatDivMod(x, y) m == FMod(x, y) IN
    /\ d.err = ""
    /\ IsZeroF(d.r) \/ d.r.s = y.s                                   \* the remainder has the sign of the divisor
    /\ IsZeroF(d.r) => d.r.s = y.s
    /\ FCmpFin(FAbs(d.r), FAbs(y)) <= 0                               \* |r| <= |y| (equality only by rounding of mod + y)
    /\ IsIntegerF(d.q) \/ IsInf(d.q)                                  \* the quotient is integral (or overflowed)
    /\ Same(FloatRem(x, y).r, d.r)                                    \* x % y is divmod(x, y)[1]
    /\ LET i == IdealDivMod(x, y) IN                                  \* CPython's algorithm = exact floor division, rounded once,
       i.qbits > 52 \/ (Same(d.q, i.q) /\ Same(d.r, i.r))            \* as long as the quotient is below 2^52
    /\ IsZeroF(m) \/ (m.s = x.s /\ FCmpFin(FAbs(m), FAbs(y)) < 0)      \* fmod: sign of x, |m| < |y|
    /\ Same(FMod(m, y), m)                                            \* fmod is idempotent
    /\ IsZeroF(x) \/ IsZeroF(d.r) \/ FCmpFin(FAbs(x), FAbs(y)) >= 0 \/ (IF x.s = y.s THEN Same(d.r, x) ELSE Same(d.r, FAdd(x, y)))   \* |x| < |y|
ConvLaws(x) ==
  /\ IsFin(x) =>
       LET t == TruncToInt(x) r == RoundHalfEvenToInt(x) IN
       /\ (IsIntegerF(x) => (r = t /\ CompareIntFloat(t, x) = "eq" /\ SameNum(IntToFloat(t).v, x) /\ SameNum(IntTrueDiv(t, ZOne).v, x)))
       /\ CmpN(t.m, r.m) <= 0 /\ CmpN(SubN(r.m, t.m), One) <= 0      \* |round(x)| - |trunc(x)| is 0 or 1
       /\ CompareIntFloat(Z(1, t.m), FAbs(x)) \in {"lt", "eq"}        \* |trunc(x)| <= |x| < |trunc(x)| + 1
       /\ CompareIntFloat(Z(1, AddN(t.m, One)), FAbs(x)) = "gt"
       /\ Same(FFloor(x), IF x.s = 0 \/ IsIntegerF(x) THEN (IF t.m = <<>> THEN FZero(x.s) ELSE IntToFloat(t).v) ELSE IntToFloat(ZSub(t, ZOne)).v)
       \* the exact decimal expansion of x (m * 2^e = m * 5^-e * 10^e) converts back to x, also when perturbed far below an ulp
       /\ IsZeroF(x) \/ (IF x.e >= 0 THEN Same(DecimalToDouble(x.s, ShlN(x.m, x.e), 0), x)
                          ELSE LET D == MulN(x.m, PowN(<<5>>, -x.e)) IN
                               /\ Same(DecimalToDouble(x.s, D, x.e), x)
                               /\ Same(DecimalToDouble(x.s, AddN(MulN(D, <<1000>>), One), x.e - 3), x)
                               /\ Same(DecimalToDouble(x.s, SubN(MulN(D, <<1000>>), One), x.e - 3), x))
  /\ Same(FloatPow(x, FZero(0)).f, FOne) /\ Same(FloatPow(FOne, x).f, FOne)      \* x ** 0 = 1 ** x = 1, even for nan
Laws(x, y) == ArithLaws(x, y) /\ DivModLaws(x, y) /\ (IsZeroF(y) /\ y.s = 0 => ConvLaws(x))
Failing(x, y) == <<ArithLaws(x, y), DivModLaws(x, y), ConvLaws(x)>>

ASSUME /\ ReprOk(DecodeF(<<63, 185, 153, 153, 153, 153, 153, 154>>), <<48, 46, 49>>)   \* '0.1'
       /\ ~ReprOk(DecodeF(<<63, 185, 153, 153, 153, 153, 153, 154>>), <<48, 46, 49, 48, 48, 48, 48, 48, 48, 48, 48, 48, 48, 48, 48, 48, 48, 48, 49>>)   \* not '0.10000000000000001'
       /\ ReprOk(DecodeF(<<63, 211, 51, 51, 51, 51, 51, 52>>), <<48, 46, 51, 48, 48, 48, 48, 48, 48, 48, 48, 48, 48, 48, 48, 48, 48, 48, 52>>)   \* '0.30000000000000004'
       /\ ~ReprOk(DecodeF(<<63, 211, 51, 51, 51, 51, 51, 52>>), <<48, 46, 51>>)   \* not '0.3'
       /\ ReprOk(DecodeF(<<68, 128, 240, 207, 6, 77, 213, 146>>), <<49, 101, 43, 50, 50>>)   \* '1e+22'
       /\ ReprOk(DecodeF(<<68, 128, 240, 207, 6, 77, 213, 146>>), <<49, 101, 50, 50>>)   \* '1e22'
       /\ ReprOk(DecodeF(<<68, 128, 240, 207, 6, 77, 213, 146>>), <<49, 48, 48, 48, 48, 48, 48, 48, 48, 48, 48, 48, 48, 48, 48, 48, 48, 48, 48, 48, 48, 48, 48, 46, 48>>)   \* '10000000000000000000000.0'
       /\ ReprOk(DecodeF(<<0, 0, 0, 0, 0, 0, 0, 1>>), <<53, 101, 45, 51, 50, 52>>)   \* '5e-324'
       /\ ~ReprOk(DecodeF(<<0, 0, 0, 0, 0, 0, 0, 1>>), <<52, 46, 57, 52, 48, 54, 53, 54, 52, 53, 56, 52, 49, 50, 52, 54, 53, 52, 101, 45, 51, 50, 52>>)   \* not '4.9406564584124654e-324'
       /\ ReprOk(DecodeF(<<63, 240, 0, 0, 0, 0, 0, 0>>), <<49, 46, 48>>)   \* '1.0'
       /\ ~ReprOk(DecodeF(<<63, 240, 0, 0, 0, 0, 0, 0>>), <<49>>)   \* not '1'
       /\ ReprOk(DecodeF(<<63, 240, 0, 0, 0, 0, 0, 0>>), <<49, 46, 48, 48>>)   \* '1.00'
       /\ ReprOk(DecodeF(<<128, 0, 0, 0, 0, 0, 0, 0>>), <<45, 48, 46, 48>>)   \* '-0.0'
       /\ ~ReprOk(DecodeF(<<128, 0, 0, 0, 0, 0, 0, 0>>), <<48, 46, 48>>)   \* not '0.0'
       /\ ReprOk(DecodeF(<<0, 0, 0, 0, 0, 0, 0, 0>>), <<48, 46, 48>>)   \* '0.0'
       /\ ~ReprOk(DecodeF(<<0, 0, 0, 0, 0, 0, 0, 0>>), <<45, 48, 46, 48>>)   \* not '-0.0'
       /\ ReprOk(DecodeF(<<127, 240, 0, 0, 0, 0, 0, 0>>), <<105, 110, 102>>)   \* 'inf'
       /\ ReprOk(DecodeF(<<255, 240, 0, 0, 0, 0, 0, 0>>), <<45, 105, 110, 102>>)   \* '-inf'
       /\ ~ReprOk(DecodeF(<<127, 240, 0, 0, 0, 0, 0, 0>>), <<43, 73, 110, 102>>)   \* not '+Inf'
       /\ ReprOk(DecodeF(<<127, 248, 0, 0, 0, 0, 0, 0>>), <<110, 97, 110>>)   \* 'nan'
       /\ ~ReprOk(DecodeF(<<127, 248, 0, 0, 0, 0, 0, 0>>), <<78, 97, 78>>)   \* not 'NaN'
       /\ ~ReprOk(DecodeF(<<67, 208, 0, 0, 0, 0, 0, 0>>), <<52, 54, 49, 49, 54, 56, 54, 48, 49, 56, 52, 50, 55, 51, 56, 55, 57, 48, 52, 46, 48>>)   \* not '4611686018427387904.0'
       /\ ReprOk(DecodeF(<<67, 208, 0, 0, 0, 0, 0, 0>>), <<52, 46, 54, 49, 49, 54, 56, 54, 48, 49, 56, 52, 50, 55, 51, 56, 56, 101, 43, 49, 56>>)   \* '4.611686018427388e+18'
       /\ ReprOk(DecodeF(<<63, 248, 0, 0, 0, 0, 0, 0>>), <<49, 46, 53>>)   \* '1.5'
       /\ ~ReprOk(DecodeF(<<63, 248, 0, 0, 0, 0, 0, 0>>), <<49, 46, 54>>)   \* not '1.6'
       /\ ReprOk(DecodeF(<<65, 157, 111, 52, 84, 128, 0, 0>>), <<49, 50, 51, 52, 53, 54, 55, 56, 57, 46, 49, 50, 53>>)   \* '123456789.125'
       /\ ReprOk(DecodeF(<<127, 239, 255, 255, 255, 255, 255, 255>>), <<49, 46, 55, 57, 55, 54, 57, 51, 49, 51, 52, 56, 54, 50, 51, 49, 53, 55, 101, 43, 51, 48, 56>>)   \* '1.7976931348623157e+308'
       /\ ~ReprOk(DecodeF(<<127, 239, 255, 255, 255, 255, 255, 255>>), <<49, 46, 55, 57, 55, 54, 57, 51, 49, 51, 52, 56, 54, 50, 51, 49, 54, 101, 43, 51, 48, 56>>)   \* not '1.797693134862316e+308'
       /\ ReprOk(DecodeF(<<64, 4, 0, 0, 0, 0, 0, 0>>), <<50, 46, 53, 101, 48>>)   \* '2.5e0'
       /\ ReprOk(DecodeF(<<64, 4, 0, 0, 0, 0, 0, 0>>), <<50, 53, 101, 45, 49>>)   \* '25e-1'
       /\ ReprOk(DecodeF(<<67, 64, 0, 0, 0, 0, 0, 0>>), <<57, 48, 48, 55, 49, 57, 57, 50, 53, 52, 55, 52, 48, 57, 57, 50, 46, 48>>)   \* '9007199254740992.0'
       /\ ReprOk(DecodeF(<<63, 185, 153, 153, 153, 153, 153, 154>>), <<49, 101, 45, 49>>)   \* '1e-1'
ASSUME /\ Same(FloatFromText(<<49, 101, 52, 48, 48>>).v, DecodeF(<<127, 240, 0, 0, 0, 0, 0, 0>>))   \* float('1e400')
       /\ Same(FloatFromText(<<45, 49, 101, 52, 48, 48>>).v, DecodeF(<<255, 240, 0, 0, 0, 0, 0, 0>>))   \* float('-1e400')
       /\ Same(FloatFromText(<<49, 101, 45, 52, 48, 48>>).v, DecodeF(<<0, 0, 0, 0, 0, 0, 0, 0>>))   \* float('1e-400')
       /\ Same(FloatFromText(<<45, 49, 101, 45, 52, 48, 48>>).v, DecodeF(<<128, 0, 0, 0, 0, 0, 0, 0>>))   \* float('-1e-400')
       /\ Same(FloatFromText(<<32, 50, 46, 53, 10>>).v, DecodeF(<<64, 4, 0, 0, 0, 0, 0, 0>>))   \* float(' 2.5\n')
       /\ Same(FloatFromText(<<46, 53>>).v, DecodeF(<<63, 224, 0, 0, 0, 0, 0, 0>>))   \* float('.5')
       /\ Same(FloatFromText(<<53, 46>>).v, DecodeF(<<64, 20, 0, 0, 0, 0, 0, 0>>))   \* float('5.')
       /\ Same(FloatFromText(<<43, 49, 46, 53, 69, 43, 51>>).v, DecodeF(<<64, 151, 112, 0, 0, 0, 0, 0>>))   \* float('+1.5E+3')
       /\ Same(FloatFromText(<<45, 73, 78, 70>>).v, DecodeF(<<255, 240, 0, 0, 0, 0, 0, 0>>))   \* float('-INF')
       /\ Same(FloatFromText(<<73, 110, 102, 105, 110, 105, 116, 121>>).v, DecodeF(<<127, 240, 0, 0, 0, 0, 0, 0>>))   \* float('Infinity')
       /\ Same(FloatFromText(<<50, 46, 52, 55, 48, 51, 50, 56, 50, 50, 57, 50, 48, 54, 50, 51, 50, 55, 101, 45, 51, 50, 52>>).v, DecodeF(<<0, 0, 0, 0, 0, 0, 0, 0>>))   \* float('2.4703282292062327e-324')
       /\ Same(FloatFromText(<<50, 46, 52, 55, 48, 51, 50, 56, 50, 50, 57, 50, 48, 54, 50, 51, 50, 56, 101, 45, 51, 50, 52>>).v, DecodeF(<<0, 0, 0, 0, 0, 0, 0, 1>>))   \* float('2.4703282292062328e-324')
       /\ Same(FloatFromText(<<49, 46, 55, 57, 55, 54, 57, 51, 49, 51, 52, 56, 54, 50, 51, 49, 53, 56, 101, 51, 48, 56>>).v, DecodeF(<<127, 239, 255, 255, 255, 255, 255, 255>>))   \* float('1.7976931348623158e308')
       /\ Same(FloatFromText(<<49, 46, 55, 57, 55, 54, 57, 51, 49, 51, 52, 56, 54, 50, 51, 49, 53, 57, 101, 51, 48, 56>>).v, DecodeF(<<127, 240, 0, 0, 0, 0, 0, 0>>))   \* float('1.7976931348623159e308')
       /\ Same(FloatFromText(<<57, 48, 48, 55, 49, 57, 57, 50, 53, 52, 55, 52, 48, 57, 57, 51>>).v, DecodeF(<<67, 64, 0, 0, 0, 0, 0, 0>>))   \* float('9007199254740993')
       /\ Same(FloatFromText(<<57, 48, 48, 55, 49, 57, 57, 50, 53, 52, 55, 52, 48, 57, 57, 53>>).v, DecodeF(<<67, 64, 0, 0, 0, 0, 0, 2>>))   \* float('9007199254740995')
ASSUME /\ FloatFromText(<<>>).err = "ValueError"   \* float('')
       /\ FloatFromText(<<49, 101>>).err = "ValueError"   \* float('1e')
       /\ FloatFromText(<<45, 45, 49>>).err = "ValueError"   \* float('--1')
       /\ FloatFromText(<<49, 95, 48>>).err = "ValueError"   \* float('1_0')
       /\ FloatFromText(<<48, 120, 49, 48>>).err = "ValueError"   \* float('0x10')
       /\ FloatFromText(<<49, 46, 53, 120>>).err = "ValueError"   \* float('1.5x')
       /\ FloatFromText(<<32>>).err = "ValueError"   \* float(' ')
ASSUME /\ FloatPow(FZero(0), FNeg(FOne)).err = "ZeroDivisionError"
       /\ FloatPow(DecodeF(<<127, 225, 204, 243, 133, 235, 200, 160>>), DecodeF(<<64, 0, 0, 0, 0, 0, 0, 0>>)).err = "OverflowError"
       /\ FloatPow(FNeg(FOne), FHalf).cplx
       /\ Same(FloatPow(Inf(1), DecodeF(<<64, 8, 0, 0, 0, 0, 0, 0>>)).f, Inf(1)) /\ Same(FloatPow(FZero(1), DecodeF(<<64, 8, 0, 0, 0, 0, 0, 0>>)).f, FZero(1))
       /\ Same(FloatPow(DecodeF(<<63, 224, 0, 0, 0, 0, 0, 0>>), Inf(1)).f, Inf(0))

VARIABLES x, y, v
Init == x \in Lattice /\ y \in Lattice /\ v = "todo"
Next == v = "todo" /\ v' = (IF Laws(x, y) THEN "ok" ELSE "bad") /\ UNCHANGED <<x, y>>
Spec == Init /\ [][Next]_<<x, y, v>>
LawsHold == v # "bad"
=============================================================================
