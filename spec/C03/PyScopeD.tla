---- MODULE PyScopeD ----
\* Declarative classification of a name in every block: Python's lexical scoping rules, stated
\* without any traversal order.  SymtableAlg (the transcribed two-pass algorithm, under every
\* iteration order) is checked against these rules by TLC (ScopeMC, RefineMC).
\*
\*  * the binding of a name that a block does not bind itself is provided by the NEAREST ENCLOSING
\*    FUNCTION block that binds it (assignment/del/import/parameter);  CLASS blocks are skipped
\*    (class bodies are invisible to the code nested in them);  a function that declares the name
\*    `global` cuts the search (the name is then a global in everything nested below it, unless
\*    rebound there);
\*  * a function's local is a CELL iff some descendant's free reference resolves to this function;
\*  * blocks between a free reference and its binder carry the name as an implicit FREE symbol;
\*  * the name __class__ is special: every CLASS block provides a binding of it for the code nested in
\*    the class (its methods see the class being defined through an implicit cell of the class block;
\*    zero-argument super() relies on it); the class block itself has no symbol for it, but owns the
\*    cell (ClsCell) iff some nested block refers to it;
\*  * rejected: `global` or `nonlocal` of a parameter, `global` and `nonlocal` of the same name,
\*    `nonlocal` without an enclosing function binding (includes: at module level).
EXTENDS SymtableAlg
\* proper ancestors of b, nearest first
RECURSIVE AncSeq(_, _)
AncSeq(Blocks, b) == IF Blocks[b].parent = 0 THEN <<>> ELSE <<Blocks[b].parent>> \o AncSeq(Blocks, Blocks[b].parent)
AncSet(Blocks, b) == LET a == AncSeq(Blocks, b) IN { a[i] : i \in 1..Len(a) }
Desc(Blocks, b) == { d \in 1..Len(Blocks) : b \in AncSet(Blocks, d) }
\* the function that provides the binding of n for code nested in it, seen from block b; 0 = none.
CLS == "__class__"
RECURSIVE BinderIn(_, _, _)
BinderIn(Blocks, anc, n) ==
  IF anc = <<>> THEN 0
  ELSE LET p == Head(anc) f == Blocks[p].flags[n] IN
       IF Blocks[p].type = "class" /\ n = CLS THEN p
       ELSE IF Blocks[p].type # "function" THEN BinderIn(Blocks, Tail(anc), n)
       ELSE IF "G" \in f THEN 0
       ELSE IF Bound(f) THEN p
       ELSE BinderIn(Blocks, Tail(anc), n)
Binder(Blocks, b, n) == BinderIn(Blocks, AncSeq(Blocks, b), n)
\* does block d refer to n as a free variable?
RefersFree(Blocks, d, n) == LET f == Blocks[d].flags[n] IN
   f # {} /\ "G" \notin f /\ ("N" \in f \/ ~Bound(f)) /\ Binder(Blocks, d, n) # 0
ErrorD(Blocks, n) == \E b \in 1..Len(Blocks) : LET f == Blocks[b].flags[n] IN
   \/ ("G" \in f /\ ("P" \in f \/ "N" \in f))
   \/ ("N" \in f /\ "G" \notin f /\ ("P" \in f \/ Binder(Blocks, b, n) = 0))
ClassifyD(Blocks, b, n) == LET f == Blocks[b].flags[n] IN
   IF f = {} THEN (IF \E d \in Desc(Blocks, b) : RefersFree(Blocks, d, n) /\ Binder(Blocks, d, n) \in AncSet(Blocks, b)
                   THEN FREE ELSE INV)
   ELSE IF "G" \in f THEN GE
   ELSE IF "N" \in f THEN FREE
   ELSE IF Bound(f) THEN (IF Blocks[b].type = "function" /\ \E d \in Desc(Blocks, b) : RefersFree(Blocks, d, n) /\ Binder(Blocks, d, n) = b
                          THEN CELL ELSE LOC)
   ELSE IF Binder(Blocks, b, n) # 0 THEN FREE ELSE GI
\* the class block owns the implicit __class__ cell
ClsCell(Blocks, b) == /\ Blocks[b].type = "class" /\ CLS \in Names
                      /\ \E d \in Desc(Blocks, b) : RefersFree(Blocks, d, CLS) /\ Binder(Blocks, d, CLS) = b
ClassTable(Blocks) == TLCEval([b \in 1..Len(Blocks) |-> TLCEval([n \in Names |-> ClassifyD(Blocks, b, n)])])
AnyErrorD(Blocks) == \E n \in Names : ErrorD(Blocks, n)
====
