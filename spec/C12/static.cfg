SPECIFICATION Spec
CHECK_DEADLOCK FALSE
INVARIANTS
  WitnessOK DecodeOK OpcodesOK OperandsOK JumpTargetsOK LnotabOK
  NoUnderflow DepthOK FuncOperandsOK BlocksBalanced BlockLevelsOK BlockDepthOK InRange EndsInReturn PhaseKnown
  EmitReach
