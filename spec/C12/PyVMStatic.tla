---- MODULE PyVMStatic ----
(***************************************************************************)
(* Static part of C12: TLC explores the abstract state space of every code *)
(* object of codes.ndjson (one initial state per code object) and checks   *)
(* the clauses of C12 as invariants.  The code objects are the real output *)
(* of the compiler, so a violated invariant is a verdict about the         *)
(* compiler; every violating state prints one JSON record naming the code  *)
(* object, the offset and the opcode there (run with -continue).           *)
(***************************************************************************)
EXTENDS PyVM

VARIABLES cid, pc, stk, blk, ph, chk
vars == <<cid, pc, stk, blk, ph, chk>>

StackSize == Codes[cid].stacksize
InCode == pc >= 0 /\ pc < CodeLen(cid) /\ Codes[cid].st[pc + 1] = 1
\* states that violate a bound are not expanded (keeps the state space finite with -continue)
Healthy == InCode /\ Len(stk) <= StackSize /\ Len(blk) <= MAXBLOCKS

Init == /\ cid \in 1..NC /\ pc = 0 /\ stk = <<>> /\ blk = <<>> /\ ph = "load" /\ chk = NoChk

\* the static clauses, computed in a step so that the workers share the work
Load == /\ ph = "load"
        /\ LET k == StaticCheck(cid)
           IN chk' = k /\ ph' = IF Runnable(k) THEN "run" ELSE "malformed"
        /\ UNCHANGED <<cid, pc, stk, blk>>
Run == /\ ph = "run" /\ Healthy
       /\ \E r \in Succ(cid, pc, stk, blk) :
            /\ pc' = r.pc /\ stk' = r.stk /\ blk' = r.blk /\ ph' = r.ph
       /\ UNCHANGED <<cid, chk>>
Next == Load \/ Run
Spec == Init /\ [][Next]_vars

---------------------------------------------------------------------------
Report(inv, p, kind) ==
  PrintT(ToJson([v |-> inv, cid |-> cid, pc |-> p, kind |-> kind, depth |-> Len(stk), nblk |-> Len(blk),
                 op |-> IF p >= 0 /\ p < CodeLen(cid) THEN B(cid, p) ELSE -1]))

\* machinery: the boundary witness supplied by the harness is the decoding from offset 0
WitnessOK == chk.witness = -1 \/ ~Report("WitnessOK", chk.witness, "witness")
\* every instruction lies inside the code string
DecodeOK == chk.trunc = -1 \/ ~Report("DecodeOK", chk.trunc, "truncated")
\* every opcode is defined; EXTENDED_ARG prefixes an instruction with an operand
OpcodesOK == chk.opcode = -1 \/ ~Report("OpcodesOK", chk.opcode, "opcode")
\* every operand indexes an existing constant, name, local, cell or comparison
OperandsOK == chk.operand = -1 \/ ~Report("OperandsOK", chk.operand, "operand")
\* every jump lands on an instruction boundary inside the code
JumpTargetsOK == chk.jump = -1 \/ ~Report("JumpTargetsOK", chk.jump, "jump")
\* the line table is monotone and stays within the code and the source
LnotabOK == chk.lnotab = "" \/ ~Report("LnotabOK", -1, chk.lnotab)
\* no path underflows the value stack
NoUnderflow == ph # "underflow" \/ ~Report("NoUnderflow", pc, ph)
\* the value stack never exceeds co_stacksize
DepthOK == Len(stk) <= StackSize \/ ~Report("DepthOK", pc, "depth")
\* POP_BLOCK / POP_EXCEPT / END_FINALLY / WITH_CLEANUP find blocks and markers of the right kind
BlocksBalanced == ph \notin {"pop_block", "pop_block_level", "pop_except", "end_finally", "with_cleanup", "handler_unwind"}
                  \/ ~Report("BlocksBalanced", pc, ph)
\* the value stack never drops below the level of an enclosing block
BlockLevelsOK == (ph = "run" => LevelsOK(stk, blk)) \/ ~Report("BlockLevelsOK", pc, "level")
\* at most CO_MAXBLOCKS nested blocks
BlockDepthOK == Len(blk) <= MAXBLOCKS \/ ~Report("BlockDepthOK", pc, "blocks")
\* control never leaves the code string or lands inside an instruction
InRange == (ph = "run" => InCode) \/ ~Report("InRange", pc, "pc")
\* every path ends in RETURN_VALUE or in a propagating exception
EndsInReturn == ph # "badexit" \/ ~Report("EndsInReturn", pc, ph)
\* nothing else
PhaseKnown == ph \in {"load", "malformed", "run", "returned", "raised", "underflow", "badexit",
                      "pop_block", "pop_block_level", "pop_except", "end_finally", "with_cleanup", "handler_unwind"}

\* export of the reachable (pc, depth, block depth) triples of the code objects marked emit (always TRUE)
EmitReach == (ph = "run" /\ Codes[cid].emit = 1 /\ Healthy)
               => PrintT(ToJson([e |-> cid, pc |-> pc, d |-> Len(stk), b |-> Len(blk)]))
====
