\* smallest instance (leaves only): used by --replay to obtain the meta record
SPECIFICATION Spec
CONSTANTS
  Depth = 0
  MinDepth = 0
  SynDepth = 2
  Outer3 <- Contexts
  MaxIn = 3
INVARIANTS TypeOK FinalOK
CHECK_DEADLOCK TRUE
