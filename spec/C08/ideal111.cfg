\* ideal model, 3 contexts, scripts of <=1 operation, all interleavings; behaviours exported
SPECIFICATION Spec
CONSTANTS
  Ctx = {"c1", "c2", "c3"}
  Shared = FALSE
  MaxLens <- ML111
  ScriptSet <- MCScripts
  Policies <- Both
INVARIANTS NonInterference FinalEqualsSolo Emit
CHECK_DEADLOCK FALSE
