---- MODULE CompileServiceTrace ----
\* Trace validation: the events recorded from the real py.Compile (one global atomic sequence
\* number orders them) must be a behaviour of CompileService.  Each line of trace.ndjson is
\*   {"e": "inv", "p": <client>, "k": "k<key index>"}       a client calls py.Compile(key)
\*   {"e": "ret", "p": <client>, "d": "<hash of the deep dump>"}  it returns
\*   {"e": "chk", "k": "k<key index>", "d": "<hash>"}       a code object returned earlier is dumped again
\*   {"e": "obs", "d": "<hash of the observer's stdout>"}   one run of the observer finished
\* The trace is deterministic (no hidden variables), so one step per line; the first line that is
\* not a step of the specification is reported (PrintT), counted in bad and skipped.  The trace is
\* accepted iff nothing was reported and the search depth is Len(Trace) + 1.
EXTENDS Integers, Sequences, TLC, Json
Trace == ndJsonDeserialize("trace.ndjson")
CONSTANTS NProcs
Keys == { Trace[j].k : j \in { j \in 1..Len(Trace) : Trace[j].e = "inv" } }
Procs == 1..NProcs
Dumps == STRING
VARIABLES memo, pending, obs, i, bad
S == INSTANCE CompileService
tvars == <<memo, pending, obs, i, bad>>
TInit == S!Init /\ i = 1 /\ bad = 0
Step(e) == \/ e.e = "inv" /\ S!Invoke(e.p, e.k)
           \/ e.e = "ret" /\ S!Return(e.p, e.d)
           \/ e.e = "chk" /\ S!Recheck(e.k, e.d)
           \/ e.e = "obs" /\ S!Observe(e.d)
TNext == /\ i <= Len(Trace)
         /\ i' = i + 1
         /\ \/ Step(Trace[i]) /\ UNCHANGED bad
            \/ /\ ~ENABLED Step(Trace[i])
               /\ PrintT(ToJson([rejected |-> i, event |-> Trace[i],
                                 key |-> IF Trace[i].e = "ret" THEN pending[Trace[i].p] ELSE IF Trace[i].e = "chk" THEN Trace[i].k ELSE "-"]))
               \* report, drop the event (a rejected return still ends the call) and go on
               /\ pending' = IF Trace[i].e = "ret" THEN [pending EXCEPT ![Trace[i].p] = S!None] ELSE pending
               /\ bad' = bad + 1 /\ UNCHANGED <<memo, obs>>
TSpec == TInit /\ [][TNext]_tvars
====
