//go:build verif

// C03: every name resolves to the binding Python's lexical scoping selects.
//
//  1. Design checks (TLC, spec/C03): ScopeMC -- the transcribed two-pass algorithm of
//     symtable/symtable.go (SymtableAlg) equals the declarative scoping rules (PyScopeD) on every
//     tree of <=4 blocks x block types x def-use flag sets of one name; RefineMC -- SymtableRun, the
//     same algorithm as a state machine that takes the elements of every map iteration in an arbitrary
//     order, ends in the declarative classification from every reachable terminal state (two names):
//     the outcome does not depend on the order in which names are analysed.
//  2. Binding G: TLC enumerates (PyScopeBFS, exhaustive; PyScopeFlags, one program per def-use flag
//     configuration of a tree; PyScopeLocset, the locals() case class) and samples (PyScopeDice, dice = seeded entropy from here) programs of PyScope.tla and prints,
//     per program, accept/reject, the classification and capture tables and the run-time log that
//     the specification's dynamic semantics yields.  This harness renders each program, and compares
//     by equality: py.Compile accept/reject (SyntaxError family), the REAL symtable package's scopes
//     (symtable.NewSymTable: Symbols/Children), and the log of running it (harness/pyrun).
//
// No expectation is computed here.
package main

import (
	"crypto/sha1"
	"encoding/json"
	"fmt"
	"math/rand"
	"os"
	"sort"
	"strings"
	"sync"
	"sync/atomic"
	"time"

	"gpverif/cmd/c03/scope"
	"gpverif/common"
	"gpverif/pyrun"

	"github.com/go-python/gpython/py"
)

var (
	env *common.Env
	rep *common.Report

	seenMu      sync.Mutex
	seen        = map[[20]byte]bool{}
	nCases      int64
	nReject     int64
	nRun        int64
	nSpecBad    int64
	nNonTrivial int64
	orgMu       sync.Mutex
	orgCount    = map[string]int{}
	whyCount    = map[string]int{}
	clsCount    = map[string]int{}
	dumpF       *os.File
	dumpMu      sync.Mutex
)

type observed struct {
	Outcome string   `json:"outcome"`
	Log     []string `json:"log"`
}

// runProgram executes prologue, program and epilogue in one fresh context and returns the log.
func runProgram(src string) observed {
	c := pyrun.New()
	timedOut := false
	defer func() {
		if !timedOut { // Close would wait for an abandoned execution for ever
			c.Close()
		}
	}()
	for i, unit := range []string{scope.Prologue, src, scope.Epilogue} {
		r := c.Exec(unit, 120*time.Second)
		timedOut = r.TimedOut
		if r.Outcome() != "ok" {
			o := r.Outcome()
			if r.Panic != "" {
				o = "panic:" + r.PanicSite
			}
			if r.CompileErr {
				o = "compile-" + o
			}
			return observed{Outcome: fmt.Sprintf("%s@unit%d", o, i), Log: readLog(c)}
		}
	}
	return observed{Outcome: "ok", Log: readLog(c)}
}

func readLog(c *pyrun.Ctx) []string {
	out := []string{}
	if c.Mod == nil {
		return out
	}
	l, ok := c.Mod.Globals["LOG"].(*py.List)
	if !ok {
		return out
	}
	for _, it := range l.Items {
		if s, ok := it.(py.String); ok {
			out = append(out, string(s))
		} else {
			out = append(out, "<"+it.Type().Name+">")
		}
	}
	return out
}

func flagsOf(c *scope.Case, b int, n string) string {
	if b < len(c.Flags) {
		return strings.Join(c.Flags[b][n], "")
	}
	return "?"
}

func nameList(c *scope.Case) []string {
	var ns []string
	for n := range c.P[0].Par {
		ns = append(ns, n)
	}
	sort.Strings(ns)
	return ns
}

// check compares the real code with what the specification says about one program.
func check(line []byte, family string) {
	var c scope.Case
	if err := json.Unmarshal(line, &c); err != nil || len(c.P) == 0 {
		common.Inconclusive("property=C03 cannot decode a TLC record: %v: %.200s", err, line)
	}
	atomic.AddInt64(&nCases, 1)
	if !c.SpecOK {
		atomic.AddInt64(&nSpecBad, 1)
		return
	}
	src := scope.Render(c.P)
	h := sha1.Sum([]byte(src))
	seenMu.Lock()
	dup := seen[h]
	seen[h] = true
	seenMu.Unlock()
	if dup {
		return
	}
	if len(c.P) > 1 {
		atomic.AddInt64(&nNonTrivial, 1)
	}
	names := nameList(&c)
	detail := func(extra map[string]interface{}) map[string]interface{} {
		d := map[string]interface{}{"family": family, "src": src, "program": c.P, "spec": map[string]interface{}{
			"reject": c.Reject, "why": c.Why, "cls": c.Cls, "cap": c.Cap, "clscell": c.ClsCell, "flags": c.Flags, "log": c.Log, "org": c.Org}}
		for k, v := range extra {
			d[k] = v
		}
		return d
	}
	rep.Sample(map[string]interface{}{"src": src, "reject": c.Reject, "log": c.Log})
	orgMu.Lock()
	whyCount["reject:"+c.Why]++
	orgMu.Unlock()

	// (1) accept / reject at compile time
	var code *py.Code
	cr := pyrun.Guard(120*time.Second, func() error {
		var err error
		code, err = py.Compile(src, "<verif>", py.ExecMode, 0, true)
		return err
	})
	var blocks []scope.Block
	sr := pyrun.Guard(120*time.Second, func() error {
		var err error
		blocks, err = scope.Symtable(src, names)
		return err
	})
	if dumpF != nil {
		b, _ := json.Marshal(map[string]interface{}{"src": src, "reject": c.Reject, "cls": c.Cls, "log": c.Log, "names": names, "family": family})
		dumpMu.Lock()
		dumpF.Write(append(b, '\n'))
		dumpMu.Unlock()
	}
	if c.Reject {
		atomic.AddInt64(&nReject, 1)
		if cr.Outcome() == "ok" {
			rep.Violation("C03|Reject("+c.Why+")|py.Compile|observed=accepted", detail(nil))
		} else if !cr.IsA("SyntaxError") {
			rep.Violation("C03|Reject("+c.Why+")|py.Compile|observed="+cr.Outcome(), detail(map[string]interface{}{"msg": cr.Msg, "panic": cr.Panic}))
		}
		if sr.Outcome() == "ok" {
			rep.Violation("C03|Reject("+c.Why+")|symtable.NewSymTable|observed=accepted", detail(nil))
		} else if !sr.IsA("SyntaxError") {
			rep.Violation("C03|Reject("+c.Why+")|symtable.NewSymTable|observed="+sr.Outcome(), detail(map[string]interface{}{"msg": sr.Msg, "panic": sr.Panic}))
		}
		return
	}
	compiled := cr.Outcome() == "ok"
	if !compiled { // reported; the symbol table is still compared (it says where the compiler was misled)
		rep.Violation("C03|Accept|py.Compile|observed="+cr.Outcome(), detail(map[string]interface{}{"msg": cr.Msg, "panic": cr.Panic}))
	}
	if sr.Outcome() != "ok" {
		rep.Violation("C03|Accept|symtable.NewSymTable|observed="+sr.Outcome(), detail(map[string]interface{}{"msg": sr.Msg, "panic": sr.Panic}))
		return
	}

	// (2) classification by the real symtable package
	if len(blocks) != len(c.P) {
		rep.Violation("C03|Blocks|count|observed=different-tree", detail(map[string]interface{}{"blocks": blocks}))
		return
	}
	for b := range blocks {
		want := "function"
		if k := c.P[b].Kind; k == "module" || k == "class" {
			want = k
		}
		if blocks[b].Type != want {
			rep.Violation(fmt.Sprintf("C03|Blocks|kind=%s|observed=%s", c.P[b].Kind, blocks[b].Type), detail(map[string]interface{}{"blocks": blocks, "block": b + 1}))
			return
		}
		if b < len(c.ClsCell) && c.ClsCell[b] != blocks[b].NeedsClassClosure {
			rep.Violation(fmt.Sprintf("C03|ClassCell|block=%s,expected=%v|observed=%v", want, c.ClsCell[b], blocks[b].NeedsClassClosure),
				detail(map[string]interface{}{"blocks": blocks, "block": b + 1}))
		}
		for _, n := range names {
			exp, got := c.Cls[b][n], blocks[b].Scope[n]
			orgMu.Lock()
			clsCount[want+"/"+exp]++
			orgMu.Unlock()
			if exp != got {
				rep.Violation(fmt.Sprintf("C03|Classify|block=%s,flags=%s,expected=%s|observed=%s", want, flagsOf(&c, b, n), exp, got),
					detail(map[string]interface{}{"blocks": blocks, "block": b + 1, "name": n}))
			}
			if c.Cap[b][n] != blocks[b].Cap[n] {
				rep.Violation(fmt.Sprintf("C03|Capture|block=%s,flags=%s,expected=%v|observed=%v", want, flagsOf(&c, b, n), c.Cap[b][n], blocks[b].Cap[n]),
					detail(map[string]interface{}{"blocks": blocks, "block": b + 1, "name": n}))
			}
		}
	}

	if !compiled {
		return
	}
	// (2b) the compiler's slot tables: cellvars / freevars of every code object (pre-order of the
	// nested code constants = textual order = the specification's scope ids)
	var codes []*py.Code
	var walk func(c *py.Code)
	walk = func(c *py.Code) {
		codes = append(codes, c)
		for _, k := range c.Consts {
			if cc, ok := k.(*py.Code); ok {
				walk(cc)
			}
		}
	}
	walk(code)
	if len(codes) != len(c.P) {
		rep.Violation("C03|CodeObjects|count|observed=different-tree", detail(map[string]interface{}{"codes": len(codes)}))
		return
	}
	has := func(l []string, n string) bool {
		for _, x := range l {
			if x == n {
				return true
			}
		}
		return false
	}
	for b, co := range codes {
		for _, n := range names {
			isCell := c.Cls[b][n] == "cell" || (n == "__class__" && b < len(c.ClsCell) && c.ClsCell[b])
			if isCell != has(co.Cellvars, n) {
				rep.Violation(fmt.Sprintf("C03|CodeObjects|kind=%s,cellvar expected=%v|observed=%v", c.P[b].Kind, isCell, !isCell), detail(map[string]interface{}{"block": b + 1, "name": n, "cellvars": co.Cellvars}))
			}
			if c.Cap[b][n] != has(co.Freevars, n) {
				rep.Violation(fmt.Sprintf("C03|CodeObjects|kind=%s,freevar expected=%v|observed=%v", c.P[b].Kind, c.Cap[b][n], !c.Cap[b][n]), detail(map[string]interface{}{"block": b + 1, "name": n, "freevars": co.Freevars}))
			}
		}
	}

	// (3) run-time resolution
	atomic.AddInt64(&nRun, 1)
	orgMu.Lock()
	for _, o := range c.Org {
		orgCount[o]++
	}
	orgMu.Unlock()
	key, ob := compareRun(&c, src)
	if key != "" {
		// once more in a fresh context before reporting
		key2, ob2 := compareRun(&c, src)
		if key2 == "" {
			rep.Violation("C03|Run|unstable|observed=differs-between-runs", detail(map[string]interface{}{"first": ob, "second": ob2}))
		} else {
			rep.Violation(key2, detail(map[string]interface{}{"observed": ob2}))
		}
	}
}

func compareRun(c *scope.Case, src string) (string, observed) {
	ob := runProgram(src)
	i := 0
	for i < len(c.Log) && i < len(ob.Log) && c.Log[i] == ob.Log[i] {
		i++
	}
	org := "end"
	if i < len(c.Org) {
		org = c.Org[i]
	}
	switch {
	case ob.Outcome != "ok":
		return fmt.Sprintf("C03|Run|%s|observed=%s", org, ob.Outcome), ob
	case i < len(c.Log) && i < len(ob.Log):
		kind := "other-value"
		if ob.Log[i] == "NameError" {
			kind = "NameError"
		} else if c.Log[i] == "NameError" {
			kind = "value-instead-of-NameError"
		}
		return fmt.Sprintf("C03|Run|%s|observed=%s", org, kind), ob
	case i < len(c.Log):
		return fmt.Sprintf("C03|Run|%s|observed=log-ends", org), ob
	case i < len(ob.Log):
		return "C03|Run|end|observed=extra-entries", ob
	}
	return "", ob
}

// pool feeds TLC records to workers.
type pool struct {
	ch chan []byte
	wg sync.WaitGroup
}

func newPool(n int, family string) *pool {
	p := &pool{ch: make(chan []byte, 4096)}
	for i := 0; i < n; i++ {
		p.wg.Add(1)
		go func() {
			defer p.wg.Done()
			for l := range p.ch {
				check(l, family)
			}
		}()
	}
	return p
}
func (p *pool) add(rec []byte) { p.ch <- append([]byte(nil), rec...) }
func (p *pool) close()         { close(p.ch); p.wg.Wait() }

func dice(rng *rand.Rand, n int) string {
	var sb strings.Builder
	for i := 0; i < n; i++ {
		k := 8 + rng.Intn(22)
		sb.WriteString(`{"d":[`)
		for j := 0; j < k; j++ {
			if j > 0 {
				sb.WriteByte(',')
			}
			fmt.Fprintf(&sb, "[%d,%d,%d,%d]", rng.Intn(10000), rng.Intn(10000), rng.Intn(10000), rng.Intn(10000))
		}
		sb.WriteString("]}\n")
	}
	return sb.String()
}

// design runs a TLC design check; a failing invariant there is a defect of the specification
// (the two descriptions of Python's scoping disagree), never a verdict about gpython.
func design(module, cfg string, workers int) *common.TLCResult {
	t0 := time.Now()
	defer func() { fmt.Printf("stage %s/%s: %.1fs\n", module, cfg, time.Since(t0).Seconds()) }()
	res := env.MustTLC(common.TLCRun{Dir: "C03", Module: module, Config: cfg, Workers: workers, Timeout: 25 * time.Minute})
	if len(res.Violations) > 0 || !res.Finished {
		common.Inconclusive("property=C03 spec-level check %s/%s failed: %v\n%s", module, cfg, res.Violations, res.Stdout)
	}
	return res
}

func generate(module, cfg, family string, extra map[string]string, workers int) *common.TLCResult {
	t0 := time.Now()
	defer func() {
		fmt.Printf("stage %s/%s: %.1fs (cases so far %d)\n", module, cfg, time.Since(t0).Seconds(), atomic.LoadInt64(&nCases))
	}()
	p := newPool(env.Workers, family)
	res := env.MustTLC(common.TLCRun{Dir: "C03", Module: module, Config: cfg, Extra: extra, Workers: workers,
		Timeout: 25 * time.Minute, OnLine: p.add})
	p.close()
	if len(res.Violations) > 0 || !res.Finished {
		common.Inconclusive("property=C03 generator %s/%s failed: %v\n%s", module, cfg, res.Violations, res.Stdout)
	}
	return res
}

// replay re-checks the one case recorded in a replay file (program + the specification's
// expectations as TLC printed them) against the current tree.
func replay() {
	b, err := os.ReadFile(env.Replay)
	if err != nil {
		common.Inconclusive("property=C03 replay: %v", err)
	}
	var f struct {
		Case struct {
			Program []scope.Scope `json:"program"`
			Spec    struct {
				Reject  bool                  `json:"reject"`
				Why     string                `json:"why"`
				Cls     []map[string]string   `json:"cls"`
				Cap     []map[string]bool     `json:"cap"`
				ClsCell []bool                `json:"clscell"`
				Flags   []map[string][]string `json:"flags"`
				Log     []string              `json:"log"`
				Org     []string              `json:"org"`
			} `json:"spec"`
		} `json:"case"`
	}
	if err := json.Unmarshal(b, &f); err != nil || len(f.Case.Program) == 0 {
		common.Inconclusive("property=C03 replay file %s has no program: %v", env.Replay, err)
	}
	c := scope.Case{P: f.Case.Program, Reject: f.Case.Spec.Reject, Why: f.Case.Spec.Why, Cls: f.Case.Spec.Cls, Cap: f.Case.Spec.Cap, ClsCell: f.Case.Spec.ClsCell,
		Flags: f.Case.Spec.Flags, Log: f.Case.Spec.Log, Org: f.Case.Spec.Org, SpecOK: true}
	line, _ := json.Marshal(c)
	fmt.Print(scope.Render(c.P))
	check(line, "replay")
	rep.Evaluations = 1
	rep.Finish()
}

func main() {
	env = common.Setup()
	rep = common.NewReport(env, "model_checking")
	if d := os.Getenv("C03_DUMP"); d != "" { // development aid: rendered programs + spec predictions
		f, err := os.Create(d)
		if err == nil {
			dumpF = f
			defer f.Close()
		}
	}
	if env.Replay != "" {
		replay()
		return
	}
	tier := "quick"
	if env.Thorough() {
		tier = "thorough"
	}
	rng := rand.New(rand.NewSource(env.Seed))

	// design checks run next to the generation (they only need TLC)
	wDesign := env.Workers / 3
	if wDesign < 1 {
		wDesign = 1
	}
	wGen := env.Workers - wDesign
	if wGen < 1 {
		wGen = 1
	}
	var dres []*common.TLCResult
	var dwg sync.WaitGroup
	dwg.Add(1)
	go func() {
		defer dwg.Done()
		if os.Getenv("C03_DEV_SKIPDESIGN") == "1" { // development aid (mutation runs): binding stages only
			rep.Extra["design_checks_skipped"] = true
			return
		}
		dres = append(dres, design("ScopeMC", "ScopeMC_"+tier+".cfg", wDesign))
		dres = append(dres, design("ScopeMC", "ScopeMC_cls.cfg", wDesign)) // the same comparison for the special name __class__
		dres = append(dres, design("RefineMC", "RefineMC_"+tier+".cfg", wDesign))
		if env.Thorough() {
			dres = append(dres, design("RefineMC", "RefineMC_thorough4.cfg", wDesign))
		}
	}()

	var gres []*common.TLCResult
	gres = append(gres, generate("PyScopeLocset", "locset.cfg", "locset", nil, wGen))
	gres = append(gres, generate("PyScopeBFS", "bfs_"+tier+".cfg", "bfs", nil, wGen))
	gres = append(gres, generate("PyScopeFlags", "flags_"+tier+".cfg", "flags", nil, wGen))
	shards, per := 1, 2600
	if env.Thorough() {
		gres = append(gres, generate("PyScopeFlags", "flags_thorough2.cfg", "flags", nil, wGen))
		shards, per = 5, 25000
	}
	for s := 0; s < shards; s++ {
		gres = append(gres, generate("PyScopeDice", "dice.cfg", "dice", map[string]string{"dice.ndjson": dice(rng, per)}, wGen))
	}
	dwg.Wait()

	var designStates int64
	for _, r := range dres {
		rep.AddTLC(r)
		designStates += r.Distinct
	}
	for _, r := range gres {
		rep.AddTLC(r)
	}
	if nSpecBad > 0 {
		common.Inconclusive("property=C03 %d generated programs on which the specification is inconsistent with itself (specok=false)", nSpecBad)
	}
	rep.Evaluations = nCases
	rep.Distinct = nNonTrivial
	rep.Extra["distinct_programs"] = len(seen)
	rep.Traces = int64(len(seen))
	rep.Rule = "distinct rendered program texts (sha1 of the source) that have at least one scope besides the module; each is compiled, analysed by the real symtable package and, when accepted, executed"
	rep.Exhaustive = false
	rep.Extra["design_check_states"] = designStates
	rep.Extra["programs_rejected_by_spec"] = nReject
	rep.Extra["programs_executed"] = nRun
	rep.Extra["log_entries_by_resolution_rule"] = orgCount
	rep.Extra["programs_by_reject_reason"] = whyCount
	rep.Extra["classifications_compared"] = clsCount
	rep.Assumptions = []string{
		"TLC evaluates the TLA+ modules correctly",
		"scope.Render maps a program record to the Python text the record denotes (names x,y; tags b<s>.<i>, a<s>.<i>, i<c>a/b, k<s>.<i>, e)",
		"the logging scaffold (LOG, L, REG, FNS, try/except NameError, keyword calls, **dict call) works in gpython (checked: a broken scaffold shows as a divergence on every program)",
	}
	// vacuity: resolution rules the run must have exercised
	for _, need := range []string{"use:def/local", "use:def/cell", "use:def/free", "use:class/local", "use:class/free", "use:comp/free", "use:lambda/free", "use:class/free+ns", "use(__class__):def/free"} {
		if orgCount[need] == 0 {
			common.Vacuous("property=C03 vacuous run: no log entry produced by rule %s", need)
		}
	}
	rep.Finish()
}
