SPECIFICATION Spec
CONSTANTS Tier = 0
INVARIANT LawsHold
CHECK_DEADLOCK FALSE
