------------------------------- MODULE PyCall -------------------------------
(* C04: binding of call arguments to parameters (Python 3.4).                                   *)
(*                                                                                              *)
(* A signature is   def f(a, b, *va, k1, k2, **kw)   restricted to npos <= 2 positional         *)
(* parameters (the last ndef of them defaulted), an optional *va, up to two keyword-only        *)
(* parameters each with or without a default, an optional **kw.                                 *)
(* A call is   f(p1..pn, k=.. for k in kws, *[s1..s_star], **{k: .. for k in ss}).              *)
(* Argument values are tags that say where they came from, so a result says for every           *)
(* parameter WHICH argument it received.                                                        *)
(*                                                                                              *)
(* BindD is the declarative statement (what Python means), BindA the fill-in order of           *)
(* PyEval_EvalCodeEx as ported in vm/eval.go:EvalCode.  PyCallMC checks BindA = BindD and the   *)
(* conservation law on the whole product; PyCallGen prints BindD's results as expectations.     *)
EXTENDS Integers, Sequences, FiniteSets, TLC, Json, SequencesExt, Functions

PosNames == <<"a", "b">>
KwoNames == <<"k1", "k2">>
AllKw == {"a", "b", "k1", "k2", "z"}          \* "z" is never a parameter name

KwoShapes == { <<>>,
               <<[name |-> "k1", d |-> FALSE]>>, <<[name |-> "k1", d |-> TRUE]>>,
               <<[name |-> "k1", d |-> FALSE], [name |-> "k2", d |-> FALSE]>>,
               <<[name |-> "k1", d |-> FALSE], [name |-> "k2", d |-> TRUE]>>,
               <<[name |-> "k1", d |-> TRUE], [name |-> "k2", d |-> FALSE]>>,
               <<[name |-> "k1", d |-> TRUE], [name |-> "k2", d |-> TRUE]>> }
Sigs == { [npos |-> np, ndef |-> nd, va |-> va, kwo |-> kwo, vk |-> vk] :
            np \in 0..2, nd \in 0..2, va \in BOOLEAN, vk \in BOOLEAN, kwo \in KwoShapes }
ValidSig(s) == s.ndef <= s.npos

\* call: n explicit positionals, explicit keywords kws, *seq of length star (-1 = absent),
\* **map with key set ss (hasss = FALSE: absent)
Calls == { [n |-> n, kws |-> kws, star |-> st, hasss |-> h, ss |-> ss] :
            n \in 0..3, kws \in SUBSET AllKw, st \in -1..2, h \in BOOLEAN, ss \in SUBSET AllKw }
ValidCall(c) == (~c.hasss => c.ss = {}) /\ Cardinality(c.kws) <= 3 /\ Cardinality(c.ss) <= 2

\* The two spaces as sequences, built by decoding an index (the order carries no meaning; it only
\* makes the indexes the harness samples by, and replay files, stable from run to run).
KwBit(n) == CASE n = "a" -> 1 [] n = "b" -> 2 [] n = "k1" -> 4 [] n = "k2" -> 8 [] n = "z" -> 16
OfMask(m) == { n \in AllKw : (m \div KwBit(n)) % 2 = 1 }
KwSets(maxn) == SelectSeq([m \in 1..32 |-> OfMask(m - 1)], LAMBDA ns : Cardinality(ns) <= maxn)
KwsSeq == KwSets(3)
SsSeq == <<[hasss |-> FALSE, ss |-> {}]>> \o [i \in 1..Len(KwSets(2)) |-> [hasss |-> TRUE, ss |-> KwSets(2)[i]]]
CallSeq == [i \in 1..(4 * 4 * Len(KwsSeq) * Len(SsSeq)) |->
              LET j == i - 1
                  si == j % Len(SsSeq)              j1 == j \div Len(SsSeq)
                  ki == j1 % Len(KwsSeq)            j2 == j1 \div Len(KwsSeq)
              IN [n |-> j2 \div 4, kws |-> KwsSeq[ki + 1], star |-> (j2 % 4) - 1,
                  hasss |-> SsSeq[si + 1].hasss, ss |-> SsSeq[si + 1].ss]]
PosShapes == << <<0, 0>>, <<1, 0>>, <<1, 1>>, <<2, 0>>, <<2, 1>>, <<2, 2>> >>       \* <<npos, ndef>>
KwoSeq == << <<>>,
             <<[name |-> "k1", d |-> FALSE]>>, <<[name |-> "k1", d |-> TRUE]>>,
             <<[name |-> "k1", d |-> FALSE], [name |-> "k2", d |-> FALSE]>>,
             <<[name |-> "k1", d |-> FALSE], [name |-> "k2", d |-> TRUE]>>,
             <<[name |-> "k1", d |-> TRUE], [name |-> "k2", d |-> FALSE]>>,
             <<[name |-> "k1", d |-> TRUE], [name |-> "k2", d |-> TRUE]>> >>
SigSeq == [i \in 1..(6 * 2 * 7 * 2) |->
              LET j == i - 1
                  vk == j % 2          j1 == j \div 2
                  kw == j1 % 7         j2 == j1 \div 7
                  va == j2 % 2         ps == j2 \div 2
              IN [npos |-> PosShapes[ps + 1][1], ndef |-> PosShapes[ps + 1][2], va |-> va = 1,
                  kwo |-> KwoSeq[kw + 1], vk |-> vk = 1]]
\* the sequences enumerate exactly the valid signatures and calls, each once
SeqsExact == /\ { SigSeq[i] : i \in DOMAIN SigSeq } = { x \in Sigs : ValidSig(x) }
             /\ Len(SigSeq) = Cardinality({ x \in Sigs : ValidSig(x) })
             /\ { CallSeq[i] : i \in DOMAIN CallSeq } = { x \in Calls : ValidCall(x) }
             /\ Len(CallSeq) = Cardinality({ x \in Calls : ValidCall(x) })

\* ---------------- argument values ----------------
P(i) == "p" \o ToString(i)       S(i) == "s" \o ToString(i)
K(n) == "kw:" \o n               SS(n) == "ss:" \o n      D(n) == "def:" \o n
Positionals(c) == [i \in 1..c.n |-> P(i)] \o (IF c.star < 0 THEN <<>> ELSE [i \in 1..c.star |-> S(i)])
KwVal(c, n) == IF n \in c.kws THEN K(n) ELSE SS(n)
KwGiven(c) == c.kws \cup c.ss
ParamSeq(s) == [i \in 1..s.npos |-> PosNames[i]] \o [i \in 1..Len(s.kwo) |-> s.kwo[i].name]
ParamNames(s) == { ParamSeq(s)[i] : i \in 1..Len(ParamSeq(s)) }
Fail == [ok |-> FALSE]

\* ---------------- declarative ----------------
\* The binding succeeds iff none of the four error conditions holds; then every parameter has
\* exactly one source: its positional argument, else its keyword argument, else its default.
HasDefault(s, n) == \/ \E i \in 1..s.npos : PosNames[i] = n /\ i > s.npos - s.ndef
                    \/ \E i \in 1..Len(s.kwo) : s.kwo[i].name = n /\ s.kwo[i].d
ErrKinds(s, c) ==
  LET np == Len(Positionals(c))
      filledPos == { PosNames[i] : i \in 1..(IF np < s.npos THEN np ELSE s.npos) }
  IN  (IF c.kws \cap c.ss # {} THEN {"duplicate"} ELSE {})                             \* f(a=1, **{'a': 2})
      \cup (IF np > s.npos /\ ~s.va THEN {"surplus"} ELSE {})                          \* too many positionals
      \cup (IF KwGiven(c) \cap filledPos # {} THEN {"duplicate"} ELSE {})              \* multiple values
      \cup (IF ~(KwGiven(c) \subseteq ParamNames(s)) /\ ~s.vk THEN {"unexpected"} ELSE {})
      \cup (IF \E n \in ParamNames(s) : ~(n \in filledPos \/ n \in KwGiven(c) \/ HasDefault(s, n))
            THEN {"missing"} ELSE {})
BindD(s, c) ==
  LET pos == Positionals(c)
      np == Len(pos)
      filledPos == { PosNames[i] : i \in 1..(IF np < s.npos THEN np ELSE s.npos) }
      val(n) == IF n \in filledPos THEN pos[CHOOSE i \in 1..s.npos : PosNames[i] = n]
                ELSE IF n \in KwGiven(c) THEN KwVal(c, n) ELSE D(n)
  IN IF ErrKinds(s, c) # {} THEN Fail
     ELSE [ok |-> TRUE,
           vals |-> [n \in ParamNames(s) |-> val(n)],
           va |-> IF s.va /\ np > s.npos THEN SubSeq(pos, s.npos + 1, np) ELSE <<>>,
           kw |-> { <<n, KwVal(c, n)>> : n \in (KwGiven(c) \ ParamNames(s)) }]

\* ---------------- algorithmic: the fill-in order of PyEval_EvalCodeEx / vm.EvalCode ----------------
Unset == "-"
BindA(s, c) ==
  LET pos == Positionals(c)
      np == Len(pos)
      n0 == IF np > s.npos THEN s.npos ELSE np
      total == s.npos + Len(s.kwo)
      pname(j) == IF j <= s.npos THEN PosNames[j] ELSE s.kwo[j - s.npos].name
      slots0 == [j \in 1..total |-> IF j <= n0 THEN pos[j] ELSE Unset]
      \* keywords are merged first (a duplicate between explicit and ** is a call-site error)
      kwseq == SetToSeq(KwGiven(c))
      step(st, k) == IF st.err THEN st
                     ELSE LET js == { j \in 1..total : pname(j) = k } IN
                          IF js = {} THEN (IF s.vk THEN [st EXCEPT !.kw = @ \cup { <<k, KwVal(c, k)>> }] ELSE [st EXCEPT !.err = TRUE])
                          ELSE LET j == CHOOSE j \in js : TRUE IN
                               IF st.slots[j] # Unset THEN [st EXCEPT !.err = TRUE] ELSE [st EXCEPT !.slots[j] = KwVal(c, k)]
      st1 == FoldLeft(step, [slots |-> slots0, kw |-> {}, err |-> (c.kws \cap c.ss # {})], kwseq)
      tooMany == np > s.npos /\ ~s.va
      m == s.npos - s.ndef
      missingPos == \E j \in 1..m : st1.slots[j] = Unset
      slots2 == [j \in 1..total |-> IF j <= s.npos /\ j > m /\ st1.slots[j] = Unset THEN D(pname(j)) ELSE st1.slots[j]]
      missingKwo == \E j \in (s.npos + 1)..total : slots2[j] = Unset /\ ~s.kwo[j - s.npos].d
      slots3 == [j \in 1..total |-> IF j > s.npos /\ slots2[j] = Unset THEN D(pname(j)) ELSE slots2[j]]
  IN IF st1.err \/ tooMany \/ missingPos \/ missingKwo THEN Fail
     ELSE [ok |-> TRUE,
           vals |-> [n \in ParamNames(s) |-> slots3[CHOOSE j \in 1..total : pname(j) = n]],
           va |-> IF s.va /\ np > s.npos THEN SubSeq(pos, s.npos + 1, np) ELSE <<>>,
           kw |-> st1.kw]

\* ---------------- conservation: on success every supplied argument is delivered exactly once ----------------
Delivered(r) == { r.vals[n] : n \in DOMAIN r.vals } \cup { r.va[i] : i \in 1..Len(r.va) } \cup { p[2] : p \in r.kw }
Supplied(c) == { Positionals(c)[i] : i \in 1..Len(Positionals(c)) } \cup { KwVal(c, n) : n \in KwGiven(c) }
IsDefault(v) == v \in { D(n) : n \in AllKw }
ConservedR(s, c, r) ==
  r.ok => /\ { v \in Delivered(r) : ~IsDefault(v) } = Supplied(c)
          /\ Cardinality(DOMAIN r.vals) + Len(r.va) + Cardinality(r.kw)
               = Cardinality({ v \in Delivered(r) : ~IsDefault(v) }) + Cardinality({ n \in DOMAIN r.vals : IsDefault(r.vals[n]) })
          /\ \A n \in DOMAIN r.vals : IsDefault(r.vals[n]) => r.vals[n] = D(n) /\ HasDefault(s, n)
          /\ (~s.va => r.va = <<>>) /\ (~s.vk => r.kw = {})
Conserved(s, c) == ConservedR(s, c, BindD(s, c))
=============================================================================
