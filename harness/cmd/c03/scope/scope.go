// Package scope holds what the C03 and C18 harnesses share: the JSON shape of the programs that
// spec/C03/PyScope.tla emits, their rendering to Python source, and the extraction of what the
// REAL symtable package computed.  There are no expectations here: rendering is a syntactic map
// from the specification's program records to source text, extraction reports what gpython did.
package scope

import (
	"fmt"
	"sort"
	"strings"

	"github.com/go-python/gpython/ast"
	"github.com/go-python/gpython/parser"
	"github.com/go-python/gpython/py"
	"github.com/go-python/gpython/symtable"
)

// Par is a parameter mode: K = "-" | "arg" | "dup" | "dflt" (default taken from name From).
type Par struct {
	K    string `json:"k"`
	From string `json:"from"`
}

// Event of a scope body.
type Event struct {
	Op string `json:"op"`
	N  string `json:"n"`
	C  int    `json:"c"`
}

// Scope record of PyScope.tla (index in the program = scope id - 1).
type Scope struct {
	Kind   string         `json:"kind"`
	Parent int            `json:"parent"`
	Par    map[string]Par `json:"par"`
	Iter   string         `json:"iter"`
	Tgt    string         `json:"tgt"`
	Ev     []Event        `json:"ev"`
}

// Case is one record printed by TLC: the program and everything the specification says about it.
type Case struct {
	P       []Scope               `json:"p"`
	Reject  bool                  `json:"reject"`
	Why     string                `json:"why"`
	Cls     []map[string]string   `json:"cls"`
	Cap     []map[string]bool     `json:"cap"`
	ClsCell []bool                `json:"clscell"`
	Flags   []map[string][]string `json:"flags"`
	Log     []string              `json:"log"`
	Org     []string              `json:"org"`
	SpecOK  bool                  `json:"specok"`
}

// Prologue defines the logging scaffold (vetted core of gpython only); it is executed in the same
// module as the program, as a separate compilation unit, so that the program's symbol table
// contains exactly the scopes of the specification's program.
const Prologue = `LOG = []
FNS = []
def L(v):
    LOG.append(v)
    return v
def REG(f, a):
    FNS.append([f, a])
    return f
CLSS = []
def REGC(c, n):
    CLSS.append([c, n])
def CN(c):
    i = len(CLSS) - 1
    while i >= 0:
        if CLSS[i][0] is c:
            return CLSS[i][1]
        i -= 1
    return 'unregistered'
`

// Epilogue calls every function object registered before it started once more.
const Epilogue = `i_ = 0
n_ = len(FNS)
while i_ < n_:
    p_ = FNS[i_]
    try:
        p_[0](**p_[1])
    except NameError:
        L('NameError')
    i_ += 1
`

func names(sc *Scope) []string {
	var ns []string
	for n := range sc.Par {
		ns = append(ns, n)
	}
	sort.Strings(ns)
	return ns
}

// params renders the parameter list.  Every call of a generated function passes its plain parameters BY KEYWORD, so
// whether such a parameter is positional-or-keyword or keyword-only makes no difference to what it is bound to - nor
// does an unused *rest_ parameter in between.  The spelling is therefore a free choice, taken per scope from the
// names of its parameters: all positional-or-keyword / all keyword-only after a bare * / the first one positional and
// the others keyword-only after *rest_.  (Found missing by an independently seeded change: the table that moves
// arguments into cells stopped short of the keyword-only slots - a captured keyword-only parameter was an unbound cell.)
func params(sc *Scope) string {
	var a, d []string
	for _, n := range names(sc) {
		switch p := sc.Par[n]; p.K {
		case "arg":
			a = append(a, n)
		case "dup":
			a = append(a, n, n)
		case "dflt":
			d = append(d, n+"="+p.From)
		}
	}
	all := append(append([]string{}, a...), d...)
	if len(all) == 0 {
		return ""
	}
	v := 0
	for _, n := range all {
		v += len(n) + int(n[0])
	}
	v = (v + len(sc.Ev)) % 3
	switch {
	case v == 1:
		return "*, " + strings.Join(all, ", ")
	case v == 2 && len(a) >= 1:
		return strings.Join(append([]string{a[0], "*rest_"}, all[1:]...), ", ")
	case v == 2:
		return strings.Join(append([]string{"*rest_"}, all...), ", ")
	}
	return strings.Join(all, ", ")
}

// argDict is the keyword dictionary the epilogue passes: one entry per plain parameter.
func argDict(sc *Scope, tag string) string {
	var a []string
	for _, n := range names(sc) {
		if k := sc.Par[n].K; k == "arg" || k == "dup" {
			a = append(a, fmt.Sprintf("'%s': '%s'", n, tag))
		}
	}
	return "{" + strings.Join(a, ", ") + "}"
}

func kwArgs(sc *Scope, tag string) string {
	var a []string
	for _, n := range names(sc) {
		if k := sc.Par[n].K; k == "arg" || k == "dup" {
			a = append(a, fmt.Sprintf("%s='%s'", n, tag))
		}
	}
	return strings.Join(a, ", ")
}

func fname(p []Scope, c int) string {
	if p[c-1].Kind == "lambda" {
		return fmt.Sprintf("l%d", c)
	}
	return fmt.Sprintf("f%d", c)
}

func compExpr(p []Scope, c int) string {
	sc := &p[c-1]
	tgt := sc.Tgt
	if tgt == "-" {
		tgt = "_i"
	}
	it := "[" + sc.Iter + "]"
	if sc.Iter == "-" {
		it = fmt.Sprintf("['i%da', 'i%db']", c, c)
	}
	return fmt.Sprintf("[%s for %s in %s]", elts(p, c), tgt, it)
}

func lambdaExpr(p []Scope, c int) string {
	sc := &p[c-1]
	ps := params(sc)
	if ps != "" {
		ps = " " + ps
	}
	return fmt.Sprintf("REG(lambda%s: %s, %s)", ps, elts(p, c), argDict(sc, "e"))
}

// elts renders the body of an expression scope: a list display with one element per event.
func elts(p []Scope, s int) string {
	var e []string
	for i, ev := range p[s-1].Ev {
		switch ev.Op {
		case "use":
			e = append(e, useExpr(ev.N))
		case "child":
			if p[ev.C-1].Kind == "lambda" {
				e = append(e, fmt.Sprintf("%s(%s)", lambdaExpr(p, ev.C), kwArgs(&p[ev.C-1], fmt.Sprintf("a%d.%d", s, i+1))))
			} else {
				e = append(e, compExpr(p, ev.C))
			}
		}
	}
	return "[" + strings.Join(e, ", ") + "]"
}

// useExpr logs the value of a name; the class object __class__ refers to is logged by the name it
// was registered under right after its class statement.
func useExpr(n string) string {
	if n == "__class__" {
		return "L(CN(__class__))"
	}
	return "L(" + n + ")"
}

func guarded(ind string, body ...string) []string {
	out := []string{ind + "try:"}
	for _, b := range body {
		out = append(out, ind+"    "+b)
	}
	return append(out, ind+"except NameError:", ind+"    L('NameError')")
}

// body renders the events of statement scope s.
func body(p []Scope, s int, ind string) []string {
	var out []string
	for i, ev := range p[s-1].Ev {
		switch ev.Op {
		case "bind":
			out = append(out, fmt.Sprintf("%s%s = 'b%d.%d'", ind, ev.N, s, i+1))
		case "locset":
			out = append(out, fmt.Sprintf("%slocals()['%s'] = 'k%d.%d'", ind, ev.N, s, i+1))
		case "use":
			out = append(out, guarded(ind, useExpr(ev.N))...)
		case "supref":
			out = append(out, ind+"super")
		case "del":
			out = append(out, guarded(ind, "del "+ev.N)...)
		case "global", "nonlocal":
			out = append(out, ind+ev.Op+" "+ev.N)
		case "call":
			out = append(out, guarded(ind, fmt.Sprintf("%s(%s)", fname(p, ev.C), kwArgs(&p[ev.C-1], fmt.Sprintf("a%d.%d", s, i+1))))...)
		case "child":
			c := ev.C
			sc := &p[c-1]
			switch sc.Kind {
			case "def":
				inner := body(p, c, ind+"        ")
				if len(inner) == 0 {
					inner = []string{ind + "        pass"}
				}
				out = append(out, ind+"try:", fmt.Sprintf("%s    def f%d(%s):", ind, c, params(sc)))
				out = append(out, inner...)
				out = append(out, fmt.Sprintf("%s    REG(f%d, %s)", ind, c, argDict(sc, "e")), ind+"except NameError:", ind+"    L('NameError')")
			case "class":
				inner := body(p, c, ind+"    ")
				if len(inner) == 0 {
					inner = []string{ind + "    pass"}
				}
				out = append(out, fmt.Sprintf("%sclass C%d:", ind, c))
				out = append(out, inner...)
				out = append(out, fmt.Sprintf("%sREGC(C%d, 'C%d')", ind, c, c))
			case "lambda":
				out = append(out, guarded(ind, fmt.Sprintf("l%d = %s", c, lambdaExpr(p, c)))...)
			case "comp":
				out = append(out, guarded(ind, compExpr(p, c))...)
			}
		}
	}
	return out
}

// Render gives the Python source of program p (without prologue and epilogue).
func Render(p []Scope) string {
	l := body(p, 1, "")
	if len(l) == 0 {
		l = []string{"pass"}
	}
	return strings.Join(l, "\n") + "\n"
}

// Kinds gives the chain of scope kinds from the module to scope s, e.g. "module>def>class".
func Kinds(p []Scope, s int) string {
	var k []string
	for s > 0 {
		k = append([]string{p[s-1].Kind}, k...)
		s = p[s-1].Parent
	}
	return strings.Join(k, ">")
}

// Block is what the real symbol table says about one block, for the names asked about.
type Block struct {
	Type              string            // module | function | class
	Name              string            // block name ("top", function/class name, lambda, listcomp)
	Scope             map[string]string // name -> "-" | local | global_explicit | global_implicit | free | cell
	Cap               map[string]bool   // name -> the block receives the cell from its definer (free, or DefFreeClass)
	NeedsClassClosure bool              // class block: a closure over __class__ is created
}

var scopeNames = map[symtable.Scope]string{symtable.ScopeInvalid: "-", symtable.ScopeLocal: "local",
	symtable.ScopeGlobalExplicit: "global_explicit", symtable.ScopeGlobalImplicit: "global_implicit",
	symtable.ScopeFree: "free", symtable.ScopeCell: "cell"}

var typeNames = map[symtable.BlockType]string{symtable.ModuleBlock: "module", symtable.FunctionBlock: "function", symtable.ClassBlock: "class"}

// Symtable runs the real parser and symtable package on src and returns the blocks in pre-order.
func Symtable(src string, names []string) (blocks []Block, err error) {
	defer func() {
		if r := recover(); r != nil {
			err = fmt.Errorf("panic: %v", r)
		}
	}()
	var tree ast.Ast
	tree, err = parser.ParseString(src, py.ExecMode)
	if err != nil {
		return nil, err
	}
	st, err := symtable.NewSymTable(tree, "<verif>")
	if err != nil {
		return nil, err
	}
	var walk func(t *symtable.SymTable)
	walk = func(t *symtable.SymTable) {
		b := Block{Type: typeNames[t.Type], Name: t.Name, Scope: map[string]string{}, Cap: map[string]bool{}, NeedsClassClosure: t.NeedsClassClosure}
		for _, n := range names {
			sym, ok := t.Symbols[n]
			if !ok {
				b.Scope[n] = "-"
				continue
			}
			b.Scope[n] = scopeNames[sym.Scope]
			b.Cap[n] = sym.Scope == symtable.ScopeFree || sym.Flags&symtable.DefFreeClass != 0
		}
		blocks = append(blocks, b)
		for _, c := range t.Children {
			walk(c)
		}
	}
	walk(st)
	return blocks, nil
}
