SPECIFICATION Spec
CONSTANTS
  Mods = {"ma", "mb", "mc"}
  Families = {"graph3s", "diamond2", "flat2", "modname", "sample"}
  AssumeAll = FALSE
INVARIANTS TypeOK RunOnce NoReentry OneObject Provenance StarRespectsUnderscore Terminates Usable Emit
CHECK_DEADLOCK FALSE
