//go:build verif

// C05: generators are lazy and resumable; iteration ends only on StopIteration.
//
//  1. spec/C05/PyGen.tla (generator life cycle as a resumable control stack): TLC checks the clauses
//     of C05 as invariants (exhausted stays exhausted, send(non-None) to a just-created generator,
//     laziness, suspension exactly at the yield) on every history within the tier's bounds, checks that
//     `yield from` is transparent (a delegating body and the same body with the sub-generator written
//     in place are indistinguishable in lock-step, gen_lock.cfg), and prints every terminal driver
//     history with the observation the specification demands after each call.
//     R-binding: each history is replayed as a driver program on the real interpreter (in-process),
//     the outcome of every next/send and the events the bodies recorded during that call are compared.
//  2. spec/C05/PyIter.tla (the iteration protocol of every consumer): TLC checks the step-wise consumers
//     against the closed-form declarative statement and prints the full consumer x producer x items x
//     ending product with the demanded observation (pulls at creation, value or exception class, total
//     pulls / unconsumed rest). G-binding: each case is run on the real interpreter and compared.
//
// No expectation lives here: this file renders cases (dumb templates), runs them and compares text.
package main

import (
	"encoding/json"
	"fmt"
	"os"
	"runtime"
	"sync"
	"time"

	"gpverif/common"
)

const execTimeout = 20 * time.Second

type counter struct {
	mu sync.Mutex
	m  map[string]int64
}

func newCounter() *counter { return &counter{m: map[string]int64{}} }
func (c *counter) add(k string, n int64) {
	c.mu.Lock()
	c.m[k] += n
	c.mu.Unlock()
}
func (c *counter) snapshot() map[string]int64 {
	c.mu.Lock()
	defer c.mu.Unlock()
	r := map[string]int64{}
	for k, v := range c.m {
		r[k] = v
	}
	return r
}

// share of the cores (env.Workers, at most the CPUs present) for TLC workers resp. replay workers
func share(env *common.Env, div, min int) int {
	w := env.Workers
	if w > runtime.NumCPU() {
		w = runtime.NumCPU()
	}
	w /= div
	if w < min {
		w = min
	}
	return w
}

// A TLC run that times out makes the check inconclusive; the limit is generous because the box is shared
// (measured: quick needs about 7 CPU-minutes in total, thorough about 2.5 times that).
func tlcTimeout(env *common.Env) time.Duration {
	if env.Thorough() {
		return 40 * time.Minute
	}
	return 20 * time.Minute
}

func main() {
	env := common.Setup()
	rep := common.NewReport(env, "model_checking")
	rep.Rule = "a case is (a) one terminal driver history of spec/C05/PyGen.tla: an assignment of body templates to the live generator instances plus a sequence of next/send calls, replayed on the real interpreter with the outcome and the bodies' event log compared after every call; distinct by (templates, call sequence), non-trivial when at least one call resumes a body; or (b) one (consumer, producer kind, items, ending) case of spec/C05/PyIter.tla, distinct by construction, non-trivial because every consumer pulls at least once"
	rep.Assumptions = []string{
		"TLC and the CommunityModules Json module are correct",
		"the logging scaffolding (list append, print of ints/strings/lists, try/except on builtin exception classes, dict of functions with string keys) works in gpython: it is the vetted core of HARNESS-GUIDE.md",
		"StopIteration.value is read with `except StopIteration as e: e.value`",
	}
	if env.Replay != "" {
		replayOne(env)
		return
	}
	// development aid for trying the check on mutated copies of the tree: C05_ONLY=gen|iter runs one half only
	// (never against /repo, whose evidence must come from complete runs)
	only := os.Getenv("C05_ONLY")
	if only != "" && (env.Repo == "/repo" || (only != "gen" && only != "iter")) {
		common.Inconclusive("property=C05 C05_ONLY=%q is only for runs against a scratch copy (VERIF_REPO) and must be gen or iter", only)
	}
	g := &genStats{byPreOut: newCounter(), byBody: newCounter()}
	it := &iterStats{byCons: newCounter(), byProd: newCounter(), byOut: newCounter()}
	if only != "iter" {
		g = runGen(env, rep)
	}
	if only != "gen" {
		it = runIter(env, rep)
	}
	if only != "" {
		fmt.Printf("PARTIAL RUN (C05_ONLY=%s): only that half of the check was run\n", only)
		rep.Extra["partial_run"] = only
	}
	rep.Evaluations = g.calls + it.cases
	rep.Distinct = g.distinctNontrivial + it.cases
	rep.Traces = g.behaviours + it.cases
	rep.Exhaustive = false // the exhaustive parts are named below; the 3-instance histories are a seeded sample
	rep.Extra["exhaustive_parts"] = []string{"gen_design.cfg / gen_design_t.cfg", "gen_quick.cfg / gen_thorough.cfg (all pairs of the tier's templates x all histories of 4 calls)", "iter_quick.cfg / iter_thorough.cfg (full consumer x producer x items x ending product)"}
	rep.Extra["sampled_parts"] = []string{"gen_sim3.cfg, thorough also gen_sim2.cfg (TLC -simulate, seed = VERIF_SEED)"}
	rep.Extra["gen_behaviours"] = g.behaviours
	rep.Extra["gen_behaviours_distinct"] = g.distinct
	rep.Extra["gen_calls_compared"] = g.calls
	rep.Extra["gen_calls_by_status_before_and_outcome"] = g.byPreOut.snapshot()
	rep.Extra["gen_calls_by_template"] = g.byBody.snapshot()
	rep.Extra["gen_runs"] = g.runs
	rep.Extra["iter_cases"] = it.cases
	rep.Extra["iter_cases_by_consumer"] = it.byCons.snapshot()
	rep.Extra["iter_cases_by_producer_and_ending"] = it.byProd.snapshot()
	rep.Extra["iter_cases_by_expected_outcome"] = it.byOut.snapshot()
	rep.Extra["iter_runs"] = it.runs
	rep.Extra["divergent_gen_calls"] = g.divergent
	rep.Extra["divergent_iter_cases"] = it.divergent
	// vacuity: every status-before x outcome class the clauses talk about must have occurred
	for _, need := range []string{"created/yield", "created/exc:TypeError", "suspended/yield", "suspended/stop", "suspended/exc:KeyError", "done-ret/stop", "done-exc/stop"} {
		if only != "iter" && g.byPreOut.snapshot()[need] == 0 {
			common.Vacuous("property=C05 vacuous run: no call of class %s was generated", need)
		}
	}
	rep.Finish()
}

// replayOne re-runs one recorded divergence (evidence of a VIOLATION) and reports whether it still diverges.
func replayOne(env *common.Env) {
	b, err := os.ReadFile(env.Replay)
	if err != nil {
		common.Inconclusive("property=C05 replay: %v", err)
	}
	var f struct {
		Key  string `json:"key"`
		Case struct {
			Prelude  string   `json:"prelude"`
			Program  string   `json:"program"`
			Expected []string `json:"expected"`
		} `json:"case"`
	}
	if err := json.Unmarshal(b, &f); err != nil {
		common.Inconclusive("property=C05 replay file: %v", err)
	}
	w := newPyWorker(f.Case.Prelude)
	r := w.ctx.Exec(f.Case.Program, execTimeout)
	obs := splitLines(r.Stdout)
	fmt.Printf("key      %s\noutcome  %s\n", f.Key, r.Outcome())
	same := len(obs) == len(f.Case.Expected) && r.Outcome() == "ok"
	for i := range f.Case.Expected {
		o := "<missing>"
		if i < len(obs) {
			o = obs[i]
		}
		mark := " "
		if o != f.Case.Expected[i] {
			mark = "!"
		}
		fmt.Printf("%s expected %-50s observed %s\n", mark, f.Case.Expected[i], o)
	}
	if same {
		for i := range obs {
			if obs[i] != f.Case.Expected[i] {
				same = false
			}
		}
	}
	if !same {
		fmt.Printf("VIOLATION property=C05 replay=%s (textual comparison; unordered results may legitimately differ in order)\n", env.Replay)
		os.Exit(1)
	}
	fmt.Println("replay: no divergence")
	os.Exit(0)
}
