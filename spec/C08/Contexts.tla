------------------------------ MODULE Contexts ------------------------------
(* C08: interpreter contexts are isolated.                                                       *)
(*                                                                                               *)
(* Several interpreter contexts run scripts of whole-statement operations, interleaved in every  *)
(* possible way.  Per-context state (never shared, in either model):                             *)
(*   main[c]      globals of the context's __main__ module                                       *)
(*   store[c][m]  the context's instance of module m: loaded?, an attribute set on it            *)
(*   syspath[c], sysargv[c]   the entries of sys.path / sys.argv behind the fixed first entry    *)
(*   builtins[c]  a rebinding of a name in the context's builtins module                         *)
(*   sysout[c]    whether the context has rebound its sys.stdout to a writer of its own; print,   *)
(*                a builtin, must reach the sys module of the context it runs in, whatever other *)
(*                contexts exist or are created later                                            *)
(* The registry of module implementations (Mods, SrcMods) is read-only.                          *)
(* `shared` is the state the IMPLEMENTATION really shares between contexts:                      *)
(*   tattr  an attribute assigned on a type defined in Go, per kind of type (TypeKinds): their     *)
(*          dictionaries are process-wide                                                         *)
(*   env    a mutable object sitting in a module implementation's Globals (os.environ; the       *)
(*          per-instance copy of Globals is shallow)                                             *)
(*   pe     the package-level variable vm.PrintExpr that REPL.Run rebinds for the duration of a   *)
(*          line and restores afterwards                                                         *)
(*   depth  the number of Python frames that are active in the process: an implementation that    *)
(*          counts frames against its recursion limit in one place lets the call depth of one     *)
(*          context decide whether another context's calls succeed                                *)
(* shared[c] is context c's view of that state.  Shared = FALSE is the ideal (every context has   *)
(* its own copy: what C08 states); Shared = TRUE is implementation-shaped (a write by one        *)
(* context updates every view).                                                                  *)
(*                                                                                               *)
(* obs[c] is everything the program in c observes: one entry per finished operation (its stdout  *)
(* and, if it raised, the exception class) and one entry per REPL echo that arrives on c's       *)
(* terminal.  NonInterference: obs[c] is a prefix of solo[c] = SoloOf(c, ..), the observations *)
(* of the same script run alone - defined here, from the same effect function, not recorded.     *)
EXTENDS Integers, Sequences, FiniteSets, TLC, Json, SequencesExt

CONSTANTS Ctx,        \* context names, strings
          Shared,     \* FALSE: ideal; TRUE: implementation-shaped
          Seeds, Cases(_), \* the script assignments to explore: UNION {Cases(s) : s \in Seeds}, each a function
                      \* Ctx -> Seq(1..Len(OpList)) (scripts as indices into OpList). Split in two levels
                      \* because TLC computes initial states in one thread: Init only picks a seed.
          Policies,   \* allowed reactions to assignment on a builtin type, see SetTypeAttr
          Configs,    \* the ways the embedding API offers to configure a context, see ConfigSeq
          ConfigDepth \* assignments with at most this many operations in total are explored under every configuration

Mods     == {"math", "umod", "pmod"}   \* math: implemented in Go; umod: Python source found on sys.path; pmod: see PathOf
SrcMods  == {"umod"}           \* importing these runs a body that prints "body", once per context
\* pmod is a module NAME that the contexts' search paths resolve differently: the embedder gave context c1 a sys.path
\* with directory A, c2 one with directory B (each holds its own pmod.py, printing "bodyA" / "bodyB"), every other
\* context none of them.  Which file the name means is a function of the importing context's OWN sys.path.
PathOf(c) == IF c = "c1" THEN "A" ELSE IF c = "c2" THEN "B" ELSE "none"
SysLists == {"path", "argv"}

\* Types defined in Go come from three places, and the type is a parameter of SetTypeAttr/GetTypeAttr:
\*   "builtin"   found in builtins (int, list, ValueError, object ...): package-level types of package py
\*   "stdlib"    exported by a Go-implemented module (array.array, binascii.Error ...): created by other
\*               packages; the harness enumerates them from the live interpreter
\*   "embedder"  registered through the embedding API (py.NewType in a module the harness registers)
TypeKinds == {"builtin", "stdlib", "embedder"}

Op(o, a) == [op |-> o, a |-> a]
OpList == << Op("SetGlobal", ""), Op("GetGlobal", ""),
             Op("Import", "math"), Op("Import", "umod"), Op("Import", "pmod"),
             Op("SetModAttr", "math"), Op("SetModAttr", "umod"),
             Op("GetModAttr", "math"), Op("GetModAttr", "umod"),
             Op("AppendSys", "path"), Op("AppendSys", "argv"),
             Op("SetSys", "path"), Op("SetSys", "argv"),
             Op("ReadSys", "path"), Op("ReadSys", "argv"),
             Op("RebindBuiltin", ""), Op("CallBuiltin", ""),
             Op("RebindStdout", ""), Op("Print", ""),
             Op("SetTypeAttr", "builtin"), Op("GetTypeAttr", "builtin"),
             Op("SetTypeAttr", "stdlib"), Op("GetTypeAttr", "stdlib"),
             Op("SetTypeAttr", "embedder"), Op("GetTypeAttr", "embedder"),
             Op("MutateImplObject", ""), Op("ReadImplObject", ""),
             Op("ReplLine", ""),
             Op("HoldDeep", ""), Op("Recurse", "") >>
Ops == {OpList[i] : i \in 1..Len(OpList)}

\* the piece of interpreter state an operation touches, and the operation that writes it: the
\* harness keys a leak by these (it has no table of its own)
Component(o) ==
  CASE o \in {"SetGlobal", "GetGlobal"}                 -> [name |-> "module globals", writer |-> "SetGlobal"]
    [] o \in {"Import", "SetModAttr", "GetModAttr"}     -> [name |-> "imported module state", writer |-> "SetModAttr"]
    [] o \in {"AppendSys", "SetSys", "ReadSys"}         -> [name |-> "sys.path/sys.argv", writer |-> "AppendSys"]
    [] o \in {"RebindBuiltin", "CallBuiltin"}           -> [name |-> "builtins module", writer |-> "RebindBuiltin"]
    [] o \in {"RebindStdout", "Print"}                  -> [name |-> "link of the builtins to their own context's sys", writer |-> "Print"]
    [] o \in {"SetTypeAttr", "GetTypeAttr"}             -> [name |-> "builtin type dictionary", writer |-> "SetTypeAttr"]
    [] o \in {"MutateImplObject", "ReadImplObject"}     -> [name |-> "object in ModuleImpl.Globals (os.environ)", writer |-> "MutateImplObject"]
    [] o = "ReplLine"                                   -> [name |-> "vm.PrintExpr", writer |-> "ReplLine"]
    [] o \in {"HoldDeep", "Recurse"}                    -> [name |-> "call depth budget", writer |-> "HoldDeep"]

\* How the contexts of a case are created is part of the case (C08 quantifies over contexts however they
\* were configured): "explicit" = ContextOpts with SysArgs and SysPaths given, "zero" = the zero value
\* py.ContextOpts{} (nil SysArgs, nil SysPaths), "default" = py.DefaultContextOpts() (nil SysArgs).
\* lazy = TRUE: a context is created when it takes its first step (so it may be created after another
\* context has already written), FALSE: all contexts exist before the first step.
\* Nothing a context observes may depend on either: Eff does not mention them.
ConfigSeq == << "explicit", "zero", "default" >>

VARIABLES seed, started,    \* Init picks a seed; the first step (Pick) picks the case and starts the contexts
          script, policy, config, lazy,  \* the case: chosen by Pick, never changed afterwards
          solo,             \* function of the case, computed by Pick: SoloOf(c, script[c], policy)
          ip, main, store, syspath, sysargv, builtins, sysout, replst, shared, obs, order
vars == <<seed, started, script, policy, config, lazy, solo, ip, main, store, syspath, sysargv, builtins, sysout, replst, shared, obs, order>>

None    == [has |-> FALSE, v |-> ""]
Some(v) == [has |-> TRUE, v |-> v]

\* the value written by the i-th operation of context c
Val(c, i) == c \o ":" \o ToString(i)

\* A script is executed step by step; every operation is one step except ReplLine and HoldDeep, which are two:
\* REPL.Run rebinds vm.PrintExpr (ph 1), then compiles and runs the line and restores (ph 2);
\* HoldDeep calls a function that recurses HoldDepth frames deep and stays there (ph 1) until it is let go, unwinds
\* and prints the depth it reached (ph 2).  Recurse recurses RecDepth frames deep and prints that depth: each fits the
\* recursion limit on its own, together they do not (HoldDepth + RecDepth > RecLimit), so Recurse tells whether
\* the frames of ANOTHER context count against this context's limit.
TwoPhase == {"ReplLine", "HoldDeep"}
HoldDepth == 900
RecDepth == 300
RecLimit == 1000
\* A step is [o |-> operation, i |-> its position in the script, ph |-> 0 (whole operation) | 1 | 2].
StepsOf(s) ==
  FoldLeft(LAMBDA acc, i : acc \o (IF OpList[s[i]].op \in TwoPhase
                                   THEN << [o |-> OpList[s[i]], i |-> i, ph |-> 1], [o |-> OpList[s[i]], i |-> i, ph |-> 2] >>
                                   ELSE << [o |-> OpList[s[i]], i |-> i, ph |-> 0] >>),
           <<>>, [i \in 1..Len(s) |-> i])

Local0 == [main     |-> [g |-> None],
           store    |-> [m \in Mods |-> [loaded |-> FALSE, attr |-> None]],
           syspath  |-> <<>>,
           sysargv  |-> <<>>,
           builtins |-> None,
           sysout   |-> FALSE,
           replst   |-> [mid |-> FALSE, saved |-> "default"]]
View0  == [tattr |-> [k \in TypeKinds |-> None], env |-> None, pe |-> "default", depth |-> 0, pcache |-> None]

\* stdout lines are joined with "/"; an exception is the last segment "exc:<Class>"
Cat(a, b) == IF a = "" THEN b ELSE IF b = "" THEN a ELSE a \o "/" \o b
JoinBar(q) == FoldLeft(LAMBDA acc, x : IF acc = "" THEN x ELSE acc \o "|" \o x, "", q)
OpEntry(i, v)   == [k |-> "op", i |-> i, v |-> v]
EchoEntry(v)    == [k |-> "echo", i |-> 0, v |-> "'" \o v \o "'"]   \* the REPL prints repr(value)

\* first use of module m in this context creates the context's instance (and runs a source body)
Loaded(L, m) == [L EXCEPT !.store[m].loaded = TRUE]
BodyOut(L, m) == IF ~L.store[m].loaded /\ m \in SrcMods THEN "body" ELSE ""

SysGet(L, l) == IF l = "path" THEN L.syspath ELSE L.sysargv
SysPut(L, l, q) == IF l = "path" THEN [L EXCEPT !.syspath = q] ELSE [L EXCEPT !.sysargv = q]

\* The effect of one step of context c: new local state, new view of the shared state, the entry
\* appended to c's own observations and the echo (if any) with the terminal it goes to.
Eff(c, st, L, S, pol) ==
  LET o == st.o.op  a == st.o.a  i == st.i  v == Val(c, st.i)
      R(L2, S2, out) == [L |-> L2, S |-> S2, out |-> <<OpEntry(i, out)>>, echoTo |-> "", echo |-> OpEntry(0, "")]
  IN CASE o = "SetGlobal"  -> R([L EXCEPT !.main.g = Some(v)], S, "")
       [] o = "GetGlobal"  -> R(L, S, IF L.main.g.has THEN L.main.g.v ELSE "exc:NameError")
       \* importing pmod: the file this context's own search path finds (implementation-shaped: the file whoever imported
       \* the name first in this process found - shared[c].pcache); no file: ImportError, nothing loaded, nothing remembered
       [] o = "Import" /\ a = "pmod" ->
            LET src == IF S.pcache.has THEN S.pcache.v ELSE PathOf(c) IN
            IF src = "none" THEN R(L, S, "exc:ImportError")
            ELSE R(Loaded(L, a), [S EXCEPT !.pcache = Some(src)], IF L.store[a].loaded THEN "" ELSE "body" \o src)
       [] o = "Import"     -> R(Loaded(L, a), S, BodyOut(L, a))
       [] o = "SetModAttr" -> R([Loaded(L, a) EXCEPT !.store[a].attr = Some(v)], S, BodyOut(L, a))
       [] o = "GetModAttr" -> R(Loaded(L, a), S,
                                Cat(BodyOut(L, a), IF L.store[a].attr.has THEN L.store[a].attr.v ELSE "exc:AttributeError"))
       [] o = "AppendSys"  -> R(SysPut(L, a, Append(SysGet(L, a), v)), S, "")
       [] o = "SetSys"     -> R(SysPut(L, a, <<v>>), S, "")
       [] o = "ReadSys"    -> R(L, S, JoinBar(SysGet(L, a)))
       [] o = "RebindBuiltin" -> R([L EXCEPT !.builtins = Some(v)], S, "")
       [] o = "CallBuiltin"   -> R(L, S, IF L.builtins.has THEN L.builtins.v ELSE "1")
       \* the observation of Print names the writer that received the text: the context's initial sys.stdout
       \* ("std") or the writer it installed itself ("own") - always one of the printing context's own
       [] o = "RebindStdout"  -> R([L EXCEPT !.sysout = TRUE], S, "")
       [] o = "Print"         -> R(L, S, (IF L.sysout THEN "own:" ELSE "std:") \o v)
       \* Python allows an implementation to refuse assignment on a builtin type (CPython: TypeError)
       \* (the reaction may differ from one kind of type to another: pol is a function of the kind)
       [] o = "SetTypeAttr" -> IF pol[a] = "reject" THEN R(L, S, "exc:TypeError")
                                                    ELSE R(L, [S EXCEPT !.tattr[a] = Some(v)], "")
       [] o = "GetTypeAttr" -> R(L, S, IF S.tattr[a].has THEN S.tattr[a].v ELSE "exc:AttributeError")
       [] o = "MutateImplObject" -> R(L, [S EXCEPT !.env = Some(v)], "")
       [] o = "ReadImplObject"   -> R(L, S, IF S.env.has THEN S.env.v ELSE "exc:KeyError")
       [] o = "HoldDeep" /\ st.ph = 1 ->
            [L |-> [L EXCEPT !.replst.mid = TRUE], S |-> [S EXCEPT !.depth = @ + HoldDepth], out |-> <<>>,
             echoTo |-> "", echo |-> OpEntry(0, "")]
       [] o = "HoldDeep" /\ st.ph = 2 ->
            [L |-> [L EXCEPT !.replst.mid = FALSE], S |-> [S EXCEPT !.depth = @ - HoldDepth], out |-> <<OpEntry(i, ToString(HoldDepth))>>,
             echoTo |-> "", echo |-> OpEntry(0, "")]
       [] o = "Recurse" -> R(L, S, IF S.depth + RecDepth > RecLimit THEN "exc:RuntimeError" ELSE ToString(RecDepth))
       [] o = "ReplLine" /\ st.ph = 1 ->
            [L |-> [L EXCEPT !.replst = [mid |-> TRUE, saved |-> S.pe]], S |-> [S EXCEPT !.pe = c], out |-> <<>>,
             echoTo |-> "", echo |-> OpEntry(0, "")]
       [] o = "ReplLine" /\ st.ph = 2 ->
            [L |-> [L EXCEPT !.replst.mid = FALSE], S |-> [S EXCEPT !.pe = L.replst.saved], out |-> <<OpEntry(i, "")>>,
             echoTo |-> S.pe, echo |-> EchoEntry(v)]

\* what context c observes when script s runs alone under policy pol
SoloOf(c, s, pol) ==
  LET r == FoldLeft(LAMBDA acc, st :
                      LET e == Eff(c, st, acc.L, acc.S, pol) IN
                      [L |-> e.L, S |-> e.S,
                       obs |-> acc.obs \o (IF e.echoTo = c THEN <<e.echo>> ELSE <<>>) \o e.out],
                    [L |-> Local0, S |-> View0, obs |-> <<>>], StepsOf(s))
  IN r.obs

Pack(c) == [main |-> main[c], store |-> store[c], syspath |-> syspath[c], sysargv |-> sysargv[c],
            builtins |-> builtins[c], sysout |-> sysout[c], replst |-> replst[c]]

\* the step context c takes next
CurStep(c) == LET o == OpList[script[c][ip[c]]] IN
              [o |-> o, i |-> ip[c], ph |-> IF o.op \notin TwoPhase THEN 0 ELSE IF replst[c].mid THEN 2 ELSE 1]

\* the kinds of type that assignment a assigns on; only for these is the reaction a choice
SetKinds(a) == { k \in TypeKinds : \E c \in Ctx : \E i \in 1..Len(a[c]) : OpList[a[c][i]] = Op("SetTypeAttr", k) }
PolicyChoices(a) == { p \in [TypeKinds -> Policies \cup {"percontext"}] :
                        \A k \in TypeKinds : IF k \in SetKinds(a) THEN p[k] \in Policies ELSE p[k] = "percontext" }

\* the configuration classes matter where sys.path/sys.argv are built: every assignment in which two contexts
\* touch them (and that is not longer than ConfigDepth) is explored under every configuration; the others
\* rotate through the configurations
UsesSys(s) == \E i \in 1..Len(s) : Component(OpList[s[i]].op).name = "sys.path/sys.argv"
SysPair(a) == Cardinality({ c \in Ctx : UsesSys(a[c]) }) >= 2
TotalOps(a) == FoldLeft(LAMBDA acc, c : FoldLeft(LAMBDA x, y : x + y, acc, a[c]), 0, SetToSeq(Ctx))
TotalLen(a) == FoldLeft(LAMBDA acc, c : acc + Len(a[c]), 0, SetToSeq(Ctx))
ConfigChoices(a) == IF SysPair(a) /\ TotalLen(a) <= ConfigDepth THEN Configs ELSE { ConfigSeq[(TotalOps(a) % 3) + 1] }

Init == /\ seed \in Seeds
        /\ started = FALSE
        /\ script = [c \in Ctx |-> <<>>]
        /\ policy = [k \in TypeKinds |-> "percontext"]
        /\ config = "explicit"
        /\ lazy = FALSE
        /\ solo = [c \in Ctx |-> <<>>]
        /\ ip = [c \in Ctx |-> 1]
        /\ main = [c \in Ctx |-> Local0.main]
        /\ store = [c \in Ctx |-> Local0.store]
        /\ syspath = [c \in Ctx |-> Local0.syspath]
        /\ sysargv = [c \in Ctx |-> Local0.sysargv]
        /\ builtins = [c \in Ctx |-> Local0.builtins]
        /\ sysout = [c \in Ctx |-> Local0.sysout]
        /\ replst = [c \in Ctx |-> Local0.replst]
        /\ shared = [c \in Ctx |-> View0]
        /\ obs = [c \in Ctx |-> <<>>]
        /\ order = <<>>

\* the first step of every behaviour: choose the case
Pick == /\ ~started
        /\ started' = TRUE
        /\ \E a \in Cases(seed) :
             /\ script' = a
             /\ lazy' = (TotalOps(a) % 2 = 1)
             /\ \E cf \in ConfigChoices(a) : config' = cf
             /\ \E pol \in PolicyChoices(a) :
                  /\ policy' = pol
                  /\ solo' = [c \in Ctx |-> SoloOf(c, a[c], pol)]
        /\ UNCHANGED <<seed, ip, main, store, syspath, sysargv, builtins, sysout, replst, shared, obs, order>>

Step(c) ==
  /\ started
  /\ ip[c] <= Len(script[c])
  /\ LET e == Eff(c, CurStep(c), Pack(c), shared[c], policy) IN
     /\ ip' = [ip EXCEPT ![c] = IF e.L.replst.mid THEN @ ELSE @ + 1]
     /\ order' = Append(order, c)
     /\ main' = [main EXCEPT ![c] = e.L.main]
     /\ store' = [store EXCEPT ![c] = e.L.store]
     /\ syspath' = [syspath EXCEPT ![c] = e.L.syspath]
     /\ sysargv' = [sysargv EXCEPT ![c] = e.L.sysargv]
     /\ builtins' = [builtins EXCEPT ![c] = e.L.builtins]
     /\ sysout' = [sysout EXCEPT ![c] = e.L.sysout]
     /\ replst' = [replst EXCEPT ![c] = e.L.replst]
     /\ shared' = IF Shared THEN [d \in Ctx |-> e.S] ELSE [shared EXCEPT ![c] = e.S]
     /\ obs' = [d \in Ctx |-> obs[d] \o (IF d = e.echoTo THEN <<e.echo>> ELSE <<>>)
                                     \o (IF d = c THEN e.out ELSE <<>>)]
     /\ UNCHANGED <<seed, started, script, policy, config, lazy, solo>>

Next == Pick \/ \E c \in Ctx : Step(c)
Spec == Init /\ [][Next]_vars

IsPrefixOf(a, b) == Len(a) <= Len(b) /\ SubSeq(b, 1, Len(a)) = a
Final == started /\ \A c \in Ctx : ip[c] > Len(script[c])

NonInterference == \A c \in Ctx : IsPrefixOf(obs[c], solo[c])
FinalEqualsSolo == Final => \A c \in Ctx : obs[c] = solo[c]

\* export of every terminal behaviour: the harness replays (script, order) on real contexts
Emit == Final => PrintT(ToJson([script |-> script, order |-> order, obs |-> obs, policy |-> policy, config |-> config, lazy |-> lazy]))

\* implementation-shaped run: print the operation at which a behaviour first leaves NonInterference
LeakWitness ==
  (started /\ NonInterference /\ ~NonInterference') =>
     LET c == order'[Len(order')]
         o == OpList[script[c][ip[c]]] IN
     PrintT(ToJson([leak |-> Component(o.op), at |-> o.op]))

\* printed once: how operations map to state components (used by the harness for finding keys)
Meta == [holddepth |-> HoldDepth, recdepth |-> RecDepth, typekinds |-> TypeKinds, meta |-> [o \in {OpList[i].op : i \in 1..Len(OpList)} |-> Component(o)],
         oplist |-> OpList, srcmods |-> SrcMods]
ASSUME PrintT(ToJson(Meta))
=============================================================================
