---- MODULE MCS ----
(* Placeholder: the harness replaces this module by one whose Chosen is a seeded sample of script *)
(* assignments (all interleavings of each are explored).                                          *)
EXTENDS MC
Chosen == { F3(<<1>>, <<2>>, <<>>) }
AllSeeds == MCSeeds \cup { a["c1"] : a \in Chosen }
AllCases(s1) == MCCases(s1) \cup { a \in Chosen : a["c1"] = s1 }
====
