SPECIFICATION Spec
CONSTANTS Kind = "str"
          FullLen = 1
          RepLen = 2
          RepPrefixes = {1, 2, 4, 6, 8, 12}
          RepQuotes = {1, 4}
INVARIANT Emit
CHECK_DEADLOCK FALSE
