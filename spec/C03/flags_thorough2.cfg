SPECIFICATION Spec
CONSTANT Names = {"x", "y"}
CONSTANT NameSeq <- Seq2
CONSTANT FShapes <- Trees3
CONSTANT FFlags <- F7
CONSTANT Mode = "all"
CONSTANT FModFlags <- FMod
CONSTANT MaxScopes = 4
CONSTANT MaxDepth = 3
CONSTANT MaxEvStmt = 9
CONSTANT MaxEvExpr = 3
CONSTANT WithLocset = FALSE
CHECK_DEADLOCK FALSE
