------------------------------ MODULE PyCallMC ------------------------------
(* Design check of PyCall on the WHOLE product of signatures and call shapes:                   *)
(* the algorithmic binder (fill-in order of vm.EvalCode) computes exactly the declarative       *)
(* result, and every successful binding conserves the supplied arguments.                       *)
(* One state per (signature, residue class of call indexes); the work happens in Next so that   *)
(* all workers share it.  Each state prints its outcome statistics (vacuity counts).            *)
EXTENDS PyCall, FiniteSetsExt
CONSTANTS NChunks,     \* the call shapes are split into this many residue classes (one state each)
          SigLimit     \* 0 = all signatures; n > 0 = only the first n (development aid, reported in the evidence)
VARIABLES si, k, v

NSigs == Len(SigSeq)
NCalls == Len(CallSeq)
ASSUME SeqsExact
ASSUME PrintT(ToJson([nsigs |-> NSigs, ncalls |-> NCalls]))

Chunk(kk) == { ci \in 1..NCalls : ci % NChunks = kk }
Kinds == {"missing", "surplus", "duplicate", "unexpected"}
One(s, c) == LET d == BindD(s, c)
             IN [good |-> (BindA(s, c) = d) /\ ConservedR(s, c, d), ok |-> d.ok, kinds |-> ErrKinds(s, c)]
Add(o, acc) == [n |-> acc.n + 1,
                bad |-> acc.bad + (IF o.good THEN 0 ELSE 1),
                ok |-> acc.ok + (IF o.ok THEN 1 ELSE 0),
                kinds |-> [kd \in Kinds |-> acc.kinds[kd] + (IF kd \in o.kinds THEN 1 ELSE 0)]]
Stats(s, kk) == FoldSet(LAMBDA ci, acc : Add(One(s, CallSeq[ci]), acc),
                        [n |-> 0, bad |-> 0, ok |-> 0, kinds |-> [kd \in Kinds |-> 0]], Chunk(kk))

Init == si \in 1..(IF SigLimit = 0 THEN NSigs ELSE SigLimit) /\ k \in 0..(NChunks - 1) /\ v = "todo"
Next == /\ v = "todo" /\ UNCHANGED <<si, k>>
        /\ LET st == Stats(SigSeq[si], k) IN
           /\ PrintT(ToJson(st))
           /\ v' = IF st.bad = 0 THEN "ok" ELSE "bad"
Spec == Init /\ [][Next]_<<si, k, v>>
DesignOk == v \in {"todo", "ok"}
=============================================================================
