\* scheduler view (AtomicWake): labelled state graph exported as JSON edges for edge-coverage replay
SPECIFICATION Spec
CONSTANTS
  Procs = {"a", "b", "c"}
  MaxLen = 1
  NeedClose = FALSE
  OpSet = {"run", "minit", "rac", "close", "wait"}
  AtomicWake = TRUE
  ScriptSet <- MCScripts
VIEW View
ACTION_CONSTRAINT Emit
INVARIANTS CounterSane CallbacksOnce DoneAfterQuiescence NoRunDuringCb ClosedMeansIdle StepClauses NoDeadlock
CHECK_DEADLOCK FALSE
