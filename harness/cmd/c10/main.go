//go:build verif

// C10: no Python-level action can panic or abort the embedding process.
//
// spec/C10 (Universe.tla, Dispatch.tla) defines the input universe as data - representative values
// of every builtin type, operator templates, statement skeletons - and the outcome alphabet of the
// call/operator boundary: value | exception. TLC enumerates the argument tuples (full product up to
// arity 2, a seeded sample of triples) and the programs. The callables are taken from the LIVE
// interpreter: everything callable in builtins and in the attribute tables of the types of the
// universe values, so a new builtin is covered without touching the specification.
//
// Every application runs in a worker subprocess (this binary re-executed with GPV_WORKER=1) with an
// address-space limit, a stack limit and a per-case watchdog, under recover(). Outcomes outside the
// alphabet are findings:
//   - a Go panic:   key C10|panic|<top gpython frame>|<panic message without values>
//   - process death: key C10|fatal|<kind>|<innermost gpython function of the dying stack>
//   - no return within the watchdog: key C10|hang|<unit>
//
// A dead worker is replaced; the unit it died in is re-run announcing every case to find the case.
package main

import (
	"bufio"
	"bytes"
	"encoding/json"
	"fmt"
	"os"
	"os/exec"
	"path/filepath"
	"sort"
	"strings"
	"sync"
	"time"

	"gpverif/common"
)

type tupleRec struct {
	Args    []int     `json:"args"`
	Tier    string    `json:"tier"`
	Sample  bool      `json:"sample"`
	Program *ProgramD `json:"program"`
	// meta record
	Outcomes  []string    `json:"outcomes"`
	Prelude   string      `json:"prelude"`
	Values    []ValueD    `json:"values"`
	Operators []OperatorD `json:"operators"`
	Excluded  []string    `json:"excluded"`
	TStd      int         `json:"tuples_std"`
	TRes      int         `json:"tuples_resource"`
	TFatal    int         `json:"tuples_fatal"`
	OpCases   []int       `json:"operator_cases_std"`
	Sweep     int         `json:"sweep_tuples"`
}

type agg struct {
	mu         sync.Mutex
	cases      int64
	values     int64
	exceptions int64
	panics     map[string]*panicInfo
	excClasses map[string]int
	fatals     int
	hangs      int
	restarts   int
	units      int
	perKind    map[string]int64
}

func (a *agg) add(r *unitResult) {
	a.mu.Lock()
	defer a.mu.Unlock()
	a.cases += int64(r.Cases)
	a.values += int64(r.Values)
	a.exceptions += int64(r.Exceptions)
	a.units++
	a.perKind[r.Unit[:1]] += int64(r.Cases)
	for k, p := range r.Panics {
		q := a.panics[k]
		if q == nil {
			q = &panicInfo{Example: p.Example, Message: p.Message}
			a.panics[k] = q
		}
		q.Count += p.Count
	}
	for k, n := range r.ExcClasses {
		a.excClasses[k] += n
	}
}

type runner struct {
	env     *common.Env
	rep     *common.Report
	u       *Universe
	seq     int
	mu      sync.Mutex
	seed    int64
	mstride int
}

type workerOut struct {
	results   []*unitResult
	lastUnit  string // unit that had begun and not ended when the worker stopped
	lastCase  int
	lastDesc  string
	done      bool
	exit      int
	stderr    string
	callables []callable
}

// spawn runs one worker process over a job and collects what it reported on fd 3.
func (r *runner) spawn(job *Job, timeout time.Duration) *workerOut {
	r.mu.Lock()
	r.seq++
	jf := filepath.Join(r.env.Scratch, fmt.Sprintf("job-%d.json", r.seq))
	r.mu.Unlock()
	job.U = r.u
	b, _ := json.Marshal(job)
	os.WriteFile(jf, b, 0o644)
	defer os.Remove(jf)
	pr, pw, err := os.Pipe()
	if err != nil {
		common.Inconclusive("property=C10 pipe: %v", err)
	}
	cmd := exec.Command(os.Args[0])
	cmd.Dir = r.env.Scratch
	cmd.Env = append(os.Environ(), "GPV_WORKER=1", "GPV_JOB="+jf, "GOTRACEBACK=single")
	cmd.ExtraFiles = []*os.File{pw}
	var se bytes.Buffer
	cmd.Stderr = &limitedWriter{buf: &se, max: 64 << 10}
	cmd.Stdout = nil
	if err := cmd.Start(); err != nil {
		common.Inconclusive("property=C10 cannot start worker: %v", err)
	}
	pw.Close()
	out := &workerOut{}
	t := time.AfterFunc(timeout, func() { cmd.Process.Kill() })
	rd := bufio.NewReaderSize(pr, 1<<20)
	for {
		line, err := rd.ReadBytes('\n')
		if len(line) > 0 {
			i := bytes.IndexByte(line, ' ')
			if i > 0 {
				kind, payload := string(line[:i]), bytes.TrimSpace(line[i+1:])
				switch kind {
				case "BEGIN":
					json.Unmarshal(payload, &out.lastUnit)
					out.lastCase, out.lastDesc = 0, ""
				case "CASE":
					var c struct {
						N    int    `json:"n"`
						Desc string `json:"desc"`
					}
					json.Unmarshal(payload, &c)
					out.lastCase, out.lastDesc = c.N, c.Desc
				case "END":
					ur := &unitResult{}
					if json.Unmarshal(payload, ur) == nil {
						out.results = append(out.results, ur)
					}
					out.lastUnit = ""
				case "DONE":
					out.done = true
				case "CALLABLES":
					json.Unmarshal(payload, &out.callables)
					out.done = true
				}
			}
		}
		if err != nil {
			break
		}
	}
	werr := cmd.Wait()
	t.Stop()
	pr.Close()
	if ee, ok := werr.(*exec.ExitError); ok {
		out.exit = ee.ExitCode()
	}
	out.stderr = se.String()
	return out
}

type limitedWriter struct {
	buf *bytes.Buffer
	max int
}

func (l *limitedWriter) Write(p []byte) (int, error) {
	if l.buf.Len() < l.max {
		n := l.max - l.buf.Len()
		if n > len(p) {
			n = len(p)
		}
		l.buf.Write(p[:n])
	}
	return len(p), nil
}

// deathKind classifies how a worker died from its stderr; site is the innermost gpython function.
func deathKind(stderr string, exit int) (kind, site string) {
	kind = fmt.Sprintf("exit status %d", exit)
	lines := strings.Split(stderr, "\n")
	for _, l := range lines {
		switch {
		case strings.HasPrefix(l, "GPV-HANG"):
			return "hang", ""
		case strings.Contains(l, "stack overflow") || strings.Contains(l, "goroutine stack exceeds"):
			kind = "stack overflow"
		case strings.Contains(l, "out of memory") || strings.Contains(l, "cannot allocate memory"):
			if kind != "stack overflow" {
				kind = "out of memory"
			}
		case strings.HasPrefix(l, "fatal error:") && strings.HasPrefix(kind, "exit status"):
			kind = common.TrimKey(strings.TrimPrefix(l, "fatal error:"), 50)
		case strings.HasPrefix(l, "panic:") && strings.HasPrefix(kind, "exit status"):
			kind = "unrecovered panic"
		}
	}
	// the recursion cycle: the gpython functions that occur repeatedly among the innermost frames (a leaf
	// that happens to be on top when the stack runs out occurs once); the smallest name is a stable choice
	count := map[string]int{}
	n := 0
	innermost := ""
	for _, l := range lines {
		if strings.HasPrefix(l, gpPrefix) {
			f := strings.TrimPrefix(l, gpPrefix)
			if i := strings.LastIndex(f, "("); i > 0 {
				f = f[:i]
			}
			if innermost == "" {
				innermost = normSite(f)
			}
			count[normSite(f)]++
			n++
			if n >= 45 {
				break
			}
		}
	}
	var fs []string
	for f, c := range count {
		if c >= 3 {
			fs = append(fs, f)
		}
	}
	sort.Strings(fs)
	if len(fs) > 0 {
		site = fs[0]
	} else {
		// the recursion is not in gpython (e.g. Go's fmt walking a self-referential map): the gpython
		// function that started it
		site = innermost
	}
	return
}

// runUnits runs the units on a pool of worker processes; a unit in which a worker dies is bisected
// to the killing case(s) by careful re-runs.
func (r *runner) runUnits(tier string, units []string, maxAr, sample, caseTO int, judgeDeath bool, a *agg, deadline time.Time) {
	mstride := r.mstride
	nw := r.env.Workers * 2 / 3 // worker processes; 4 with VERIF_WORKERS=6, 10 on the whole machine
	if nw > 10 {
		nw = 10
	}
	if nw < 1 {
		nw = 1
	}
	if nw > len(units) {
		nw = len(units)
	}
	if nw < 1 {
		return
	}
	queues := make([][]string, nw)
	for i, u := range units {
		queues[i%nw] = append(queues[i%nw], u)
	}
	var wg sync.WaitGroup
	for w := 0; w < nw; w++ {
		wg.Add(1)
		go func(q []string) {
			defer wg.Done()
			for len(q) > 0 {
				if time.Now().After(deadline) {
					return
				}
				job := &Job{Mode: "run", Tier: tier, Units: q, MaxAr: maxAr, Sample: sample, Seed: r.seed, CaseTO: caseTO, MStride: mstride}
				out := r.spawn(job, time.Until(deadline)+30*time.Second)
				for _, ur := range out.results {
					a.add(ur)
				}
				if out.done {
					return
				}
				if time.Now().After(deadline) {
					return // killed by our own deadline: not an observation
				}
				// the worker died in out.lastUnit
				done := len(out.results)
				if out.lastUnit == "" || done >= len(q) {
					common.Inconclusive("property=C10 worker stopped outside a unit (exit %d): %s", out.exit, common.TrimKey(out.stderr, 1500))
				}
				a.mu.Lock()
				a.restarts++
				a.mu.Unlock()
				r.bisect(tier, out.lastUnit, maxAr, sample, caseTO, judgeDeath, a, deadline)
				q = q[done+1:]
			}
		}(queues[w])
	}
	wg.Wait()
}

// bisect re-runs one unit announcing every case; each death names its case, which is then skipped.
func (r *runner) bisect(tier, unit string, maxAr, sample, caseTO int, judgeDeath bool, a *agg, deadline time.Time) {
	var skip []int
	for tries := 0; tries < 400; tries++ {
		if time.Now().After(deadline) {
			return
		}
		job := &Job{Mode: "run", Tier: tier, Units: []string{unit}, MaxAr: maxAr, Sample: sample, Seed: r.seed, CaseTO: caseTO, Careful: true, Skip: skip, MStride: r.mstride}
		out := r.spawn(job, time.Until(deadline)+30*time.Second)
		if out.done {
			for _, ur := range out.results {
				// cases counted so far in the failed runs are not added twice: only this complete run counts
				a.add(ur)
			}
			return
		}
		if time.Now().After(deadline) {
			return // killed by our own deadline: not an observation
		}
		if out.lastCase == 0 {
			common.Inconclusive("property=C10 worker died before the first case of %s (exit %d): %s", unit, out.exit, common.TrimKey(out.stderr, 1500))
		}
		kind, site := deathKind(out.stderr, out.exit)
		a.mu.Lock()
		if kind == "hang" {
			a.hangs++
		} else {
			a.fatals++
		}
		a.mu.Unlock()
		fmt.Printf("worker death (%s, judged=%v): %s | %s | %s\n", tier, judgeDeath, kind, site, out.lastDesc)
		if judgeDeath {
			detail := map[string]interface{}{"case": out.lastDesc, "unit": unit, "exit": out.exit, "stderr": common.TrimKey(out.stderr, 1200)}
			if kind == "hang" {
				r.rep.Violation("C10|hang|"+unitClass(unit, out.lastDesc), detail)
			} else {
				r.rep.Violation("C10|fatal|"+kind+"|"+site, detail)
			}
		}
		skip = append(skip, out.lastCase)
	}
}

// unitClass: the callable / operator / program family of a case description (no argument values).
func unitClass(unit, desc string) string {
	if i := strings.IndexAny(desc, "(["); i > 0 {
		return strings.TrimSpace(desc[:i])
	}
	return unit
}

func main() {
	if os.Getenv("GPV_WORKER") == "1" {
		workerMain()
		return
	}
	env := common.Setup()
	rep := common.NewReport(env, "exploration")
	rep.Rule = "a case is one application: (callable enumerated from the live interpreter, argument tuple over the universe of spec/C10/Universe.tla), (operator template, operand tuple) or one program skeleton; every case is distinct by construction (distinct callable/operator/program or distinct tuple) and non-trivial (it crosses the call/operator boundary once); the count is the number of cases executed to an outcome"
	rep.Assumptions = []string{
		"recover() in the worker and the exit status of the worker process together see every panic and every abort",
		"callables that do I/O or end the process are excluded by name (Universe.tla: Excluded)",
		"operand tuples with two or more operands one of which is huge are outside the judged universe: Python itself demands unbounded work there (tier resource: explored with limits, only panics are judged)",
		"the universe is a finite sample of the value space; 'never panics' is explored, not proved",
	}
	// 1. the universe, from TLC
	u := &Universe{Tuples: map[string][][]int{}, Programs: map[string][]ProgramD{}}
	var meta *tupleRec
	nSample := 0
	res := env.MustTLC(common.TLCRun{Dir: "C10", Module: "Dispatch", Config: map[bool]string{false: "quick.cfg", true: "thorough.cfg"}[env.Thorough()],
		Seed: env.Seed, Timeout: 10 * time.Minute, Workers: 2,
		OnLine: func(b []byte) {
			var t tupleRec
			if err := json.Unmarshal(b, &t); err != nil {
				common.Inconclusive("property=C10 bad record from TLC: %v", err)
			}
			switch {
			case t.Values != nil:
				m := t
				meta = &m
			case t.Program != nil:
				u.Programs[t.Tier] = append(u.Programs[t.Tier], *t.Program)
			default:
				if t.Args == nil {
					t.Args = []int{}
				}
				if t.Sample {
					nSample++
				}
				u.Tuples[t.Tier] = append(u.Tuples[t.Tier], t.Args)
			}
		}})
	if len(res.Violations) > 0 || !res.Finished || meta == nil {
		common.Inconclusive("property=C10 TLC run on spec/C10 failed: %v\n%s", res.Violations, res.Stdout)
	}
	u.Outcomes, u.Prelude, u.Values, u.Operators, u.Excluded = meta.Outcomes, meta.Prelude, meta.Values, meta.Operators, meta.Excluded
	for tier := range u.Tuples {
		// deterministic order, duplicates of the sample removed
		seen := map[string]bool{}
		var out [][]int
		for _, t := range u.Tuples[tier] {
			k := fmt.Sprint(t)
			if !seen[k] {
				seen[k] = true
				out = append(out, t)
			}
		}
		sort.Slice(out, func(i, j int) bool {
			if len(out[i]) != len(out[j]) {
				return len(out[i]) < len(out[j])
			}
			return fmt.Sprint(out[i]) < fmt.Sprint(out[j])
		})
		u.Tuples[tier] = out
	}
	for tier := range u.Programs {
		ps := u.Programs[tier]
		sort.Slice(ps, func(i, j int) bool { return strings.Join(ps[i].Lines, "\n") < strings.Join(ps[j].Lines, "\n") })
	}
	okOutcome := map[string]bool{}
	for _, o := range u.Outcomes {
		okOutcome[o] = true
	}
	// the harness observes: value, exception, panic, fatal, hang; the first two must be the alphabet
	if !okOutcome["value"] || !okOutcome["exception"] || len(okOutcome) != 2 {
		common.Inconclusive("property=C10 the outcome alphabet of the specification changed: %v", u.Outcomes)
	}
	r := &runner{env: env, rep: rep, u: u, seed: env.Seed, mstride: env.Pick(10, 1)}
	a := &agg{panics: map[string]*panicInfo{}, excClasses: map[string]int{}, perKind: map[string]int64{}}

	// 2. callables of the live interpreter
	lo := r.spawn(&Job{Mode: "list", Tier: "std"}, 2*time.Minute)
	if !lo.done || len(lo.callables) == 0 {
		common.Inconclusive("property=C10 cannot enumerate callables (exit %d): %s", lo.exit, common.TrimKey(lo.stderr, 1500))
	}
	calls := lo.callables
	nBuiltin := 0
	for _, c := range calls {
		if c.Self < 0 {
			nBuiltin++
		}
	}
	fmt.Printf("phase tlc+list done at %.1fs: %d values, %d std tuples (+%d sampled triples), %d operators, %d programs, %d callables (%d in builtins)\n",
		time.Since(env.Start).Seconds(), len(u.Values), len(u.Tuples["std"]), nSample, len(u.Operators), len(u.Programs["std"]), len(calls), nBuiltin)

	// 3. std tier: every callable and operator over every std tuple, every program
	var units []string
	for i := range calls {
		units = append(units, fmt.Sprintf("c:%d", i))
	}
	for i := range u.Operators {
		units = append(units, fmt.Sprintf("o:%d", i))
	}
	for i := 0; i < len(u.Programs["std"]); i += 200 {
		units = append(units, fmt.Sprintf("p:%d:%d", i, i+200))
	}
	hard := time.Now().Add(time.Duration(env.Pick(400, 600)) * time.Second)
	r.runUnits("std", units, 3, 0, 10, true, a, hard)
	stdCases := a.cases
	fmt.Printf("phase std done at %.1fs: %d cases, %d values, %d exceptions, %d panic sites, %d worker deaths\n",
		time.Since(env.Start).Seconds(), a.cases, a.values, a.exceptions, len(a.panics), a.fatals+a.hangs)
	if time.Now().After(hard) {
		common.Inconclusive("property=C10 the std tier did not finish within its time budget")
	}
	// cross-check with the numbers TLC computed: the operator cases are a product defined in the specification
	wantOps := int64(0)
	for _, n := range meta.OpCases {
		wantOps += int64(n)
	}
	ops3 := 0
	for _, o := range u.Operators {
		if o.Arity == 3 {
			ops3++
		}
	}
	n3 := 0
	for _, t := range u.Tuples["std"] {
		if len(t) == 3 {
			n3++
		}
	}
	wantOps += int64(ops3 * n3)
	if a.fatals+a.hangs == 0 && a.perKind["o"] != wantOps {
		common.Inconclusive("property=C10 operator cases executed (%d) differ from the product defined in the specification (%d)", a.perKind["o"], wantOps)
	}

	extra := rep.Extra
	extra["std_tier"] = map[string]interface{}{"cases": a.cases, "call_cases": a.perKind["c"], "operator_cases": a.perKind["o"], "program_cases": a.perKind["p"],
		"values": a.values, "exceptions": a.exceptions}
	if env.Thorough() {
		// 4. fatal tier: self-referential operands and unbounded recursion; every death is an observation
		b := &agg{panics: a.panics, excClasses: a.excClasses, perKind: map[string]int64{}}
		var fu []string
		for i := range calls {
			fu = append(fu, fmt.Sprintf("c:%d", i))
		}
		for i := range u.Operators {
			if u.Operators[i].Arity <= 2 {
				fu = append(fu, fmt.Sprintf("o:%d", i))
			}
		}
		fu = append(fu, fmt.Sprintf("p:0:%d", len(u.Programs["fatal"])))
		r.mstride = 0
		r.runUnits("fatal", fu, 1, 0, 120, true, b, time.Now().Add(240*time.Second))
		extra["fatal_tier"] = map[string]interface{}{"cases": b.cases, "values": b.values, "exceptions": b.exceptions, "worker_deaths": b.fatals, "hangs": b.hangs}
		a.cases += b.cases
		a.values += b.values
		a.exceptions += b.exceptions
		fmt.Printf("phase fatal done at %.1fs: %d cases, %d deaths\n", time.Since(env.Start).Seconds(), b.cases, b.fatals+b.hangs)
		// 5. resource tier: huge operands; only panics are judged, deaths and hangs are counted
		c := &agg{panics: a.panics, excClasses: a.excClasses, perKind: map[string]int64{}}
		var ru []string
		for i := range calls {
			ru = append(ru, fmt.Sprintf("c:%d", i))
		}
		for i := range u.Operators {
			if u.Operators[i].Arity == 2 {
				ru = append(ru, fmt.Sprintf("o:%d", i))
			}
		}
		r.runUnits("resource", ru, 2, 7, 2, false, c, time.Now().Add(150*time.Second))
		extra["resource_tier"] = map[string]interface{}{"cases": c.cases, "values": c.values, "exceptions": c.exceptions,
			"deaths_not_judged": c.fatals, "hangs_not_judged": c.hangs}
		a.cases += c.cases
		a.values += c.values
		a.exceptions += c.exceptions
		fmt.Printf("phase resource done at %.1fs: %d cases\n", time.Since(env.Start).Seconds(), c.cases)
	} else {
		// quick: the fatal programs and the single-operand fatal cases of the universal operators only
		b := &agg{panics: a.panics, excClasses: a.excClasses, perKind: map[string]int64{}}
		var fu []string
		for i, o := range u.Operators {
			if o.Arity == 1 {
				fu = append(fu, fmt.Sprintf("o:%d", i))
			}
		}
		fu = append(fu, fmt.Sprintf("p:0:%d", len(u.Programs["fatal"])))
		r.mstride = 0
		r.runUnits("fatal", fu, 1, 0, 120, true, b, time.Now().Add(60*time.Second))
		extra["fatal_tier"] = map[string]interface{}{"cases": b.cases, "values": b.values, "exceptions": b.exceptions, "worker_deaths": b.fatals, "hangs": b.hangs}
		a.cases += b.cases
		a.values += b.values
		a.exceptions += b.exceptions
		fmt.Printf("phase fatal done at %.1fs: %d cases, %d deaths\n", time.Since(env.Start).Seconds(), b.cases, b.fatals+b.hangs)
	}
	_ = stdCases

	// 6. verdict: every panic site is a finding
	var keys []string
	for k := range a.panics {
		keys = append(keys, k)
	}
	sort.Strings(keys)
	for _, k := range keys {
		p := a.panics[k]
		for i := 0; i < p.Count; i++ {
			if i == 0 {
				rep.Violation("C10|panic|"+k, map[string]interface{}{"example": p.Example, "panic": p.Message, "count": p.Count})
			} else if i < 1000 {
				rep.Violation("C10|panic|"+k, nil)
			}
		}
	}
	rep.Evaluations = a.cases
	rep.Distinct = a.cases
	rep.AddTLC(res)
	rep.States, rep.Transitions = 0, 0 // exploration level: the TLC state space is not the evidence
	extra["tlc"] = map[string]interface{}{"states": res.Distinct, "records": res.Records}
	extra["universe"] = map[string]interface{}{"values": len(u.Values), "operators": len(u.Operators), "programs": len(u.Programs["std"]),
		"tuples_std": len(u.Tuples["std"]), "tuples_resource": len(u.Tuples["resource"]), "tuples_fatal": len(u.Tuples["fatal"]), "sampled_triples": nSample,
		"tuples_std_arity_le2_by_tlc": meta.TStd, "boundary_sweep_tuples": meta.Sweep, "method_pair_stride": env.Pick(10, 1)}
	extra["callables"] = map[string]interface{}{"total": len(calls), "in_builtins": nBuiltin, "excluded_by_name": u.Excluded}
	extra["outcomes"] = map[string]int64{"value": a.values, "exception": a.exceptions}
	extra["exception_classes"] = a.excClasses
	extra["panic_sites"] = len(a.panics)
	extra["worker_restarts"] = a.restarts
	rep.Exhaustive = false
	for i, c := range []int{0, len(calls) / 3, 2 * len(calls) / 3} {
		t := u.Tuples["std"][(i*977+5)%len(u.Tuples["std"])]
		var ids []string
		for _, vi := range t {
			ids = append(ids, u.Values[vi-1].Src)
		}
		rep.Sample(map[string]interface{}{"callable": calls[c].Name, "args": ids})
	}
	rep.Sample(map[string]interface{}{"operator": u.Operators[50].Src, "operands": []string{u.Values[29].Src, u.Values[7].Src}})
	rep.Sample(map[string]interface{}{"program": u.Programs["std"][len(u.Programs["std"])/2].Lines})
	rep.Finish()
}
