--------------------------------- MODULE PyExprSim ---------------------------------
(* C01 -- random expression trees of depth Depth, for TLC's simulation mode (-simulate -seed): the first
   step of every behaviour draws a tape of SimTapeLen random numbers (TLC!RandomElement, driven by TLC's
   seeded generator), the second builds the tree the tape describes (PyExprGen!SimNode), evaluates it with
   PyExpr!Eval, checks the meta-invariants and prints the case exactly like PyExprGen.                   *)
EXTENDS PyExprGen
CONSTANT Depth

SimInit == c = <<"sim", Depth, <<>>>> /\ res = "todo"
SimNext == IF c[3] = <<>>
           THEN c' = <<"sim", Depth, [i \in 1..SimTapeLen |-> RandomElement(SimRange)]>> /\ UNCHANGED res
           ELSE /\ res = "todo"
                /\ LET r == CaseOf(c) IN res' = r.res /\ PrintT(ToJson(r.rec))
                /\ UNCHANGED c
====================================================================================
