SPECIFICATION Spec
CONSTANTS
  MaxFull = 2
  NSample = 300
INVARIANT TypeOK
PROPERTY Delivered
CHECK_DEADLOCK FALSE
